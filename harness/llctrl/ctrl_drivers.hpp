// llctrl family: workload drivers.  Included after ctrl_common.hpp by the configuration TUs.
#ifndef VERIF_LLCTRL_CTRL_DRIVERS_HPP
#define VERIF_LLCTRL_CTRL_DRIVERS_HPP

#include "llctrl/ctrl_common.hpp"

namespace llctrl {

inline void put16( bytes& b, std::size_t at, unsigned v ) { b[ at ] = static_cast< std::uint8_t >( v ); b[ at + 1 ] = static_cast< std::uint8_t >( v >> 8 ); }

// ------------------------------------------------------------------------------------------------
// control PDU generator: opcode 0..0x30 and 0xff x length 0..27 x payload, with crafted fields where a random
// field would only end the connection
template < class Bed >
struct pdu_gen
{
    Bed& b;
    explicit pdu_gen( Bed& bed ) : b( bed ), instant_pending_until( 0 ), has_instant( false ) {}

    std::uint16_t   instant_pending_until;
    bool            has_instant;

    bytes make()
    {
        verif::prng& r = b.rng;
        static const std::uint8_t interesting[] = { 0x08, 0x0c, 0x12, 0x16, 0x0f, 0x07, 0x0d, 0x11, 0x00, 0x01, 0x18, 0x03, 0x06, 0x0a, 0x0b, 0x14, 0x09, 0x13, 0x17, 0x10, 0x04, 0x05, 0x0e, 0x15, 0x19 };

        std::uint8_t op;
        const unsigned sel = r.below( 100 );
        if ( sel < 55 )       op = interesting[ r.below( sizeof interesting ) ];
        else if ( sel < 90 )  op = static_cast< std::uint8_t >( r.below( 0x31 ) );
        else if ( sel < 95 )  op = 0xff;
        else                  op = r.byte();

        // terminate rarely: it ends the connection
        if ( op == LL_TERMINATE_IND && r.below( 4 ) != 0 )
            op = LL_PING_REQ;

        const unsigned kl = known_length( op );
        unsigned len;
        const unsigned ls = r.below( 100 );

        if ( kl != 0 )
        {
            if ( ls < 55 )      len = kl;
            else if ( ls < 68 ) len = kl - 1;
            else if ( ls < 81 ) len = kl + 1;
            else if ( ls < 83 ) len = 0;
            else                len = r.below( 28 );
        }
        else
        {
            len = ls < 3 ? 0 : 1 + r.below( 27 );
        }

        if ( len > 27 ) len = 27;

        bytes p( len );
        for ( unsigned i = 0; i < len; ++i ) p[ i ] = r.byte();
        if ( len ) p[ 0 ] = op;

        if ( len == 0 || len != kl )
            return p;

        // a remote reason 0x22 could not be told from the response timeout
        if ( op == LL_TERMINATE_IND && p[ 1 ] == 0x22 )
            p[ 1 ] = 0x13;

        // one instant after the other: a PDU with an instant is only looked at after the previous instant
        const std::uint16_t counter = has_instant ? instant_pending_until : b.ll->connection_event_counter();

        switch ( op )
        {
        case LL_CONNECTION_UPDATE_IND:
        {
            // valid parameters, instant in the near future
            const unsigned interval = 6 + r.below( 75 );
            p[ 1 ] = static_cast< std::uint8_t >( 1 + r.below( std::min< unsigned >( 8, interval - 1 ) ) );
            put16( p, 2, r.below( interval + 1 ) );
            put16( p, 4, interval );
            put16( p, 6, 0 );
            put16( p, 8, std::max< unsigned >( 100, interval / 4 + 2 ) + r.below( 200 ) );
            const std::uint16_t instant = static_cast< std::uint16_t >( counter + 6 + r.below( 6 ) );
            put16( p, 10, instant );
            note_instant( instant );
            pending_interval = interval;
            break;
        }
        case LL_CHANNEL_MAP_IND:
        {
            p[ 1 ] |= 0x03; p[ 5 ] &= 0x1f;
            const std::uint16_t instant = static_cast< std::uint16_t >( counter + 6 + r.below( 6 ) );
            put16( p, 6, instant );
            note_instant( instant );
            break;
        }
        case LL_PHY_UPDATE_IND:
        {
            if ( r.below( 10 ) != 0 ) { p[ 1 ] = static_cast< std::uint8_t >( r.below( 3 ) ); p[ 2 ] = static_cast< std::uint8_t >( r.below( 3 ) ); }
            const std::uint16_t instant = static_cast< std::uint16_t >( counter + 6 + r.below( 6 ) );
            put16( p, 3, instant );
            if ( b.info.phy2m && p[ 1 ] <= 2 && p[ 2 ] <= 2 && ( p[ 1 ] || p[ 2 ] ) )
                note_instant( instant );
            break;
        }
        case LL_CONNECTION_PARAM_REQ:
            if ( r.below( 10 ) < 7 )
            {
                const unsigned imin = 6 + r.below( 200 ), imax = imin + r.below( 200 ), lat = r.below( 4 );
                put16( p, 1, imin ); put16( p, 3, imax ); put16( p, 5, lat );
                put16( p, 7, std::min< unsigned >( 3200, ( 1 + lat ) * imax / 4 + 10 + r.below( 300 ) ) );
            }
            else if ( r.below( 2 ) )
            {
                // clearly invalid
                switch ( r.below( 3 ) )
                {
                case 0: put16( p, 1, 100 ); put16( p, 3, 50 ); break;
                case 1: put16( p, 1, 10 ); put16( p, 3, 3201 + r.below( 1000 ) ); break;
                default: put16( p, 1, 10 ); put16( p, 3, 20 ); put16( p, 5, 500 + r.below( 1000 ) ); break;
                }
            }
            break;
        case LL_ENC_REQ:
            if ( b.info.security && Bed::keys() && !Bed::keys()->keys.empty() && r.below( 2 ) )
            {
                const auto& k = Bed::keys()->keys[ r.below( static_cast< std::uint32_t >( Bed::keys()->keys.size() ) ) ];
                for ( unsigned i = 0; i < 8; ++i ) p[ 1 + i ] = static_cast< std::uint8_t >( k.rand >> ( 8 * i ) );
                put16( p, 9, k.ediv );
            }
            break;
        default:
            break;
        }

        return p;
    }

    unsigned pending_interval = 0;

    void note_instant( std::uint16_t instant )
    {
        b.instant_pending = true;
        has_instant = true;
        instant_pending_until = instant;
    }
};

// ------------------------------------------------------------------------------------------------
// C27: random control PDU workload
template < class Bed >
void drive_ctrl( Bed& b, unsigned long ops )
{
    verif::monitor& m = verif::mon( "C27" );
    verif::ctx_prop( "C27" );
    pdu_gen< Bed > gen( b );
    unsigned long sent = 0;
    unsigned conns_on_object = 0;

    while ( sent < ops )
    {
        if ( conns_on_object++ % 6 == 0 )
            b.fresh();

        const conn_params cp = b.random_params( 80 );

        if ( !b.connect( cp ) )
        {
            m.count( "connect_failed" );
            b.fresh();
            continue;
        }

        m.count( "connections" );
        gen.has_instant = false;
        b.instant_pending = false;
        b.run_events( 1 + b.rng.below( 3 ) );

        const unsigned rounds = 4 + b.rng.below( 30 );

        for ( unsigned round = 0; round < rounds && b.connected() && sent < ops; ++round )
        {
            // stop well before a response timeout could be legitimate
            if ( b.ll->now_us - b.t_connect > 25000000ull )
                break;

            b.resp.state_class = b.proc.running && !b.proc.answered ? "local_procedure" : gen.has_instant ? "instant_pending"
                               : b.resp.enc_handshake ? "enc_start" : b.resp.local_disconnect ? "disconnecting" : "idle";

            // now and then the peripheral's application starts something
            const unsigned act = b.rng.below( 40 );
            if ( act == 0 )
            {
                if ( b.ll->initiating_connection_parameter_request( 10, 20, 0, 100 ) ) { b.resp.expect_initiated( LL_CONNECTION_PARAM_REQ, "local_conn_param_req" ); b.note( "API:conn_param_req" ); m.cls( "state:local_procedure" ); }
            }
            else if ( act == 1 )
            {
                if ( b.ll->remote_versions_request() ) { b.resp.expect_initiated( LL_VERSION_IND, "local_version_ind" ); b.note( "API:version_req" ); m.cls( "state:local_procedure" ); }
            }
            else if ( act == 2 )
            {
                if ( b.ll->phy_update_request_to_2mbit() ) { b.resp.expect_initiated( LL_PHY_REQ, "local_phy_req" ); b.note( "API:phy_req" ); }
            }
            else if ( act == 3 && round + 3 >= rounds )
            {
                b.local_disconnect( false, 0 );
                m.cls( "state:disconnecting" );
            }

            // While a PDU with an instant waits, the link layer keeps pointing into the freed slot of the receive ring
            // (instant handling is C21): stay below one turn of the ring so that the waiting PDU is not overwritten.
            int budget = static_cast< int >( b.info.rx_buffer ) - 29 - 14;
            unsigned burst = 1 + b.rng.below( 5 );
            for ( unsigned i = 0; i < burst; ++i )
            {
                const bytes p = gen.make();
                if ( gen.has_instant )
                {
                    budget -= static_cast< int >( p.size() ) + 2;
                    if ( budget < 0 && i > 0 ) { burst = i; break; }
                }
                b.cen.queue_control( p );
                ++sent;
            }
            m.cls( burst == 1 ? "burst1" : "burst2-5" );

            // first event carries the whole burst, sometimes with a loss
            b.cen.plan.burst = burst;
            if ( b.rng.below( 8 ) == 0 ) { b.cen.plan.lose_c2p.insert( b.rng.below( burst + 1 ) ); m.cls( "loss_c2p" ); }
            if ( b.rng.below( 8 ) == 0 ) { b.cen.plan.lose_p2c.insert( b.rng.below( burst + 1 ) ); m.cls( "loss_p2c" ); }
            b.run_once();

            if ( gen.has_instant && b.connected() )
            {
                m.cls( "state:instant_pending" );
                // more PDUs while the instant is pending
                if ( b.rng.below( 2 ) )
                {
                    const unsigned extra = 1 + b.rng.below( 3 );
                    unsigned queued = 0;
                    for ( unsigned i = 0; i < extra; ++i )
                    {
                        const bytes p = gen.make();
                        budget -= static_cast< int >( p.size() ) + 2;
                        if ( budget < 0 ) break;
                        b.cen.queue_control( p ); ++sent; ++queued;
                    }
                    b.cen.plan.burst = queued ? queued : 1;
                }

                for ( unsigned i = 0; i < 40 && b.connected()
                    && static_cast< std::int16_t >( static_cast< std::uint16_t >( b.ll->connection_event_counter() - gen.instant_pending_until ) ) < 2; ++i )
                {
                    b.cen.plan.burst = 8;
                    b.run_once();
                }

                if ( gen.pending_interval ) { b.current_interval = gen.pending_interval; gen.pending_interval = 0; }
                gen.has_instant = false;
                b.instant_pending = false;
                b.first_instant_heard = false;
            }

            if ( !b.settle() )
                break;

            if ( b.info.security && Bed::rec().enc_probe )
                b.enc.observed_encrypted( Bed::rec().enc_probe(), "security_attributes at quiescence" );
        }

        // end of the connection: remote terminate, local disconnect or silence
        if ( b.connected() )
        {
            const unsigned how = b.rng.below( 10 );
            if ( how < 5 )
            {
                const bytes t = { LL_TERMINATE_IND, static_cast< std::uint8_t >( 0x13 + b.rng.below( 3 ) ) };
                b.cen.queue_control( t );
            }
            else if ( how < 8 && !b.resp.local_disconnect )
            {
                b.local_disconnect( false, 0 );
            }
            else
            {
                b.life.allow_reason( 0x08, "supervision_timeout" );
            }

            for ( unsigned i = 0; i < 6000 && b.connected() && !b.stalled; ++i )
            {
                if ( how >= 8 ) b.cen.plan.silent = true;
                b.run_once();
            }

            if ( b.stalled )
                b.fresh();
            else if ( b.connected() )
            {
                verif::violation( "C27", "C27:hang:connection_does_not_end", "connection still alive 6000 events after terminate/disconnect/silence | " + b.witness(), b.step );
                b.fresh();
            }
        }
    }

    m.count( "pdus_queued", sent );
}

// ------------------------------------------------------------------------------------------------
// C27: procedure response timeout (Vol 6 Part B 5.2): 40 s, virtual time
template < class Bed >
void drive_timeout( Bed& b, unsigned long ops )
{
    verif::monitor& m = verif::mon( "C27" );
    verif::ctx_prop( "C27" );

    for ( unsigned long n = 0; n < ops; ++n )
    {
        b.fresh();

        conn_params cp = b.random_params( 800 );
        // keep the number of events per 40 s small
        static const std::uint16_t intervals[] = { 80, 160, 400, 800, 800, 400 };
        cp.interval   = intervals[ b.rng.below( 6 ) ];
        cp.win_offset = 0;
        cp.timeout    = static_cast< std::uint16_t >( std::min< unsigned >( 3200, cp.interval / 2 + 50 + b.rng.below( 400 ) ) );

        if ( !b.connect( cp ) ) { m.count( "connect_failed" ); continue; }

        b.run_events( 2 + b.rng.below( 4 ) );

        // scenario
        const unsigned procs = b.info.phy2m ? 4 : 3;
        const unsigned which = b.rng.below( procs );
        const unsigned answer = b.rng.below( 10 );       // 0..4: never answered, 5..9: answered
        std::string name;
        bool started = false;

        switch ( which )
        {
        case 0: started = b.ll->initiating_connection_parameter_request( 8, 16, 0, 200 ); name = "conn_param_req"; b.resp.expect_initiated( LL_CONNECTION_PARAM_REQ, "local_conn_param_req" ); break;
        case 1: started = b.ll->remote_versions_request(); name = "version_ind"; b.resp.expect_initiated( LL_VERSION_IND, "local_version_ind" ); break;
        case 2: started = b.ll->connection_parameter_update_request( 8, 16, 0, 200 ); name = "conn_param_req"; b.resp.expect_initiated( LL_CONNECTION_PARAM_REQ, "local_conn_param_req" ); break;
        default: started = b.ll->phy_update_request_to_2mbit(); name = "phy_req"; b.resp.expect_initiated( LL_PHY_REQ, "local_phy_req" ); break;
        }

        b.note( "API:start " + name );

        if ( !started ) { m.count( "procedure_not_started" ); continue; }

        // wait until the PDU is on air
        for ( unsigned i = 0; i < 6 && b.connected() && !b.proc.running; ++i )
            b.run_once();

        if ( !b.proc.running )
        {
            verif::violation( "C27", "C27:timeout:procedure_pdu_not_sent:" + name, "the API accepted the request but no PDU was transmitted within 6 connection events | " + b.witness(), b.step );
            continue;
        }

        const std::uint64_t t0 = b.proc.t_tx;
        const bool answered = answer >= 5;
        std::string answer_name = "none";

        if ( answered )
        {
            // answer after a random delay below 30 s
            const unsigned delay_events = b.rng.below( static_cast< std::uint32_t >( 30000000ull / ( cp.interval * 1250ull ) ) );
            b.run_events( delay_events );
            if ( !b.connected() )
            {
                verif::violation( "C27", "C27:timeout:early_close:" + name, "connection ended before the answer was sent, < 30 s after the request | " + b.witness(), b.step );
                continue;
            }

            bytes a;
            const std::uint16_t counter = b.ll->connection_event_counter();
            if ( b.proc.opcode == LL_CONNECTION_PARAM_REQ )
            {
                switch ( b.rng.below( 4 ) )
                {
                case 0:
                {
                    a = bytes( 12, 0 ); a[ 0 ] = LL_CONNECTION_UPDATE_IND; a[ 1 ] = 1; put16( a, 2, 0 ); put16( a, 4, cp.interval ); put16( a, 6, 0 ); put16( a, 8, cp.timeout );
                    put16( a, 10, static_cast< std::uint16_t >( counter + 6 ) ); answer_name = "conn_update_ind"; b.instant_pending = true; break;
                }
                case 1: a = bytes{ LL_REJECT_EXT_IND, LL_CONNECTION_PARAM_REQ, 0x1a }; answer_name = "reject_ext_ind"; break;
                case 2: a = bytes{ LL_REJECT_IND, 0x1a }; answer_name = "reject_ind"; break;
                default: a = bytes{ LL_UNKNOWN_RSP, LL_CONNECTION_PARAM_REQ }; answer_name = "unknown_rsp"; break;
                }
            }
            else if ( b.proc.opcode == LL_VERSION_IND )
            {
                a = bytes{ LL_VERSION_IND, 0x09, 0x0f, 0x00, 0x34, 0x12 }; answer_name = "version_ind";
            }
            else
            {
                switch ( b.rng.below( 3 ) )
                {
                case 0: a = bytes{ LL_PHY_UPDATE_IND, 0, 0, 0, 0 }; answer_name = "phy_update_ind_unchanged"; break;
                case 1: a = bytes{ LL_REJECT_EXT_IND, LL_PHY_REQ, 0x1a }; answer_name = "reject_ext_ind"; break;
                default: a = bytes{ LL_UNKNOWN_RSP, LL_PHY_REQ }; answer_name = "unknown_rsp"; break;
                }
            }

            b.cen.queue_control( a );
        }

        m.cls( "timeout_scenario:" + name + ":" + ( answered ? "answered" : "unanswered" ) );
        m.nontrivial( verif::mix( verif::mix( verif::hstr( name + answer_name ), cp.interval ), answered ) );

        // unrelated traffic and lost events in between do not matter
        const unsigned noise = b.rng.below( 3 );
        const std::uint64_t horizon = t0 + 40000000ull + 3 * cp.interval * 1250ull + 2000000ull;
        bool lost_recently = false;
        b.silent_slack_us = 0;

        while ( b.connected() && b.ll->now_us < horizon )
        {
            if ( noise == 1 && b.rng.below( 10 ) == 0 ) b.cen.queue_control( bytes{ LL_PING_REQ } );
            if ( noise == 2 && b.rng.below( 12 ) == 0 ) { b.cen.plan.silent = true; lost_recently = true; b.silent_slack_us = cp.interval * 1250ull; }
            b.cen.plan.burst = 4;
            b.run_once();
        }
        (void)lost_recently;

        m.eval();

        if ( b.connected() )
        {
            if ( !answered )
                verif::violation( "C27", "C27:timeout:no_close:" + name,
                    "the " + name + " procedure of the peripheral was never answered but the connection is still alive more than 40 s + 3 intervals later | " + b.witness(), b.step );
            else
                m.cls( "timeout_not_closed_when_answered" );
        }
        else if ( answered && !( b.last_closed_reason_valid ) )
        {
            // closed for another reason; check_timeout_at_close() flagged 0x22
        }

        // end the connection
        if ( b.connected() )
        {
            b.cen.queue_control( bytes{ LL_TERMINATE_IND, 0x13 } );
            for ( unsigned i = 0; i < 50 && b.connected(); ++i ) b.run_once();
        }
    }
}

// ------------------------------------------------------------------------------------------------
// C29: lifecycle scenarios with bursts of event producing PDUs right before the end
template < class Bed >
void drive_life( Bed& b, unsigned long ops )
{
    verif::monitor& m = verif::mon( "C29" );
    verif::ctx_prop( "C29" );
    b.life.track_changes = true;

    unsigned conns_on_object = 0;

    for ( unsigned long n = 0; n < ops; ++n )
    {
        if ( conns_on_object++ % 5 == 0 )
            b.fresh();

        conn_params cp = b.random_params( 160 );
        // supervision timeout of at least 8 intervals: a single lost event never ends the connection
        cp.timeout = static_cast< std::uint16_t >( std::max< unsigned >( 10, cp.interval ) + 2 + b.rng.below( 40 ) );

        const unsigned scenario = b.rng.below( 100 );

        // some advertising events without answer first
        b.run_events( 0 );
        for ( unsigned i = b.rng.below( 3 ); i; --i ) b.run_once();

        if ( !b.connect( cp ) )
        {
            m.count( "connect_failed" );
            b.fresh();
            continue;
        }

        m.count( "connections" );

        if ( scenario < 8 )
        {
            // the central never shows up
            m.cls( "scenario:never_answer" );
            for ( unsigned i = 0; i < 20 && b.connected(); ++i ) { b.cen.plan.silent = true; b.run_once(); }
            if ( b.connected() ) { verif::violation( "C29", "C29:hang:attempt_never_times_out", b.witness(), b.step ); b.fresh(); }
            continue;
        }

        // lost events before the first one is heard
        for ( unsigned i = b.rng.below( 3 ); i; --i ) { b.cen.plan.silent = true; b.run_once(); }
        if ( !b.connected() ) continue;

        b.run_events( 1 + b.rng.below( 4 ) );

        // event producing PDUs, to be put in front of something in ONE connection event
        auto queue_event_pdus = [&]( unsigned n ) {
            for ( unsigned i = 0; i < n; ++i )
            {
                switch ( b.rng.below( b.info.phy2m ? 6 : 5 ) )
                {
                case 0: b.cen.queue_control( bytes{ LL_REJECT_IND, static_cast< std::uint8_t >( 0x30 + i ) } ); break;
                case 1: b.cen.queue_control( bytes{ LL_REJECT_EXT_IND, 0x16, static_cast< std::uint8_t >( 0x30 + i ) } ); break;
                case 2: b.cen.queue_control( bytes{ LL_UNKNOWN_RSP, static_cast< std::uint8_t >( 0x14 + i ) } ); break;
                case 3: b.cen.queue_control( bytes{ LL_FEATURE_REQ, 0xff, 0, 0, 0, 0, 0, 0, 0 } ); break;
                case 4: b.cen.queue_control( bytes{ LL_VERSION_IND, 0x0a, 0x59, 0x00, static_cast< std::uint8_t >( i ), 0x00 } ); break;
                default: b.cen.queue_control( bytes{ LL_PHY_UPDATE_IND, 0, 0, 0, 0 } ); break;
                }
            }
        };

        // some life in the connection: changes, lost events
        const unsigned life_rounds = b.rng.below( 4 );
        for ( unsigned i = 0; i < life_rounds && b.connected(); ++i )
        {
            switch ( b.rng.below( 5 ) )
            {
            case 0: b.cen.queue_control( bytes{ LL_FEATURE_REQ, 0xff, 0, 0, 0, 0, 0, 0, 0 } ); break;
            case 1: b.cen.queue_control( bytes{ LL_VERSION_IND, 0x0a, 0x59, 0x00, 0x01, 0x00 } ); break;
            case 2: { b.cen.plan.silent = true; break; }
            case 3:
            {
                bytes u( 12, 0 ); u[ 0 ] = LL_CONNECTION_UPDATE_IND; u[ 1 ] = 1; put16( u, 2, 0 ); put16( u, 4, cp.interval ); put16( u, 6, 0 ); put16( u, 8, cp.timeout );
                put16( u, 10, static_cast< std::uint16_t >( b.ll->connection_event_counter() + 6 ) );
                const std::uint16_t instant = static_cast< std::uint16_t >( b.ll->connection_event_counter() + 6 );
                b.cen.queue_control( u );
                m.cls( "life:connection_update" );
                b.instant_pending = true;
                // now and then the event that reaches the instant carries a burst of event producing PDUs
                if ( b.rng.below( 2 ) )
                {
                    for ( unsigned k = 0; k < 8 && b.connected() && static_cast< std::uint16_t >( b.ll->connection_event_counter() + 1 ) != instant; ++k )
                        b.run_once();
                    const unsigned nb = b.rng.below( 9 );
                    queue_event_pdus( nb );
                    b.cen.plan.burst = nb ? nb : 1;
                    b.cen.plan.max_exchanges = 16;
                }
                b.run_events( 9 );
                b.instant_pending = false;
                break;
            }
            default: b.cen.queue_control( bytes{ LL_PING_REQ } ); break;
            }
            b.run_events( 1 + b.rng.below( 3 ) );
        }

        if ( !b.connected() ) continue;
        b.settle( 30 );
        if ( !b.connected() ) continue;

        // changes of the connection inside such bursts: encryption switched on by a completed start procedure, switched
        // off by LL_PAUSE_ENC_REQ, each to be reported by exactly one ll_connection_changed
        if ( b.info.security && Bed::keys() && !Bed::keys()->keys.empty() && b.rng.below( 5 ) < 2 )
        {
            m.cls( "scenario:encryption_change_in_burst" );
            const unsigned rounds = 1 + b.rng.below( 2 );

            for ( unsigned r = 0; r < rounds && b.connected(); ++r )
            {
                // start procedure up to the peripheral's LL_START_ENC_REQ
                const auto& k = Bed::keys()->keys[ b.rng.below( static_cast< std::uint32_t >( Bed::keys()->keys.size() ) ) ];
                bytes req( 23 );
                for ( auto& x : req ) x = b.rng.byte();
                req[ 0 ] = LL_ENC_REQ;
                for ( unsigned i = 0; i < 8; ++i ) req[ 1 + i ] = static_cast< std::uint8_t >( k.rand >> ( 8 * i ) );
                put16( req, 9, k.ediv );
                b.cen.queue_control( req );
                if ( !b.settle( 30 ) ) break;

                // burst + LL_START_ENC_RSP in one connection event
                const unsigned n_on = b.rng.below( 9 );
                queue_event_pdus( n_on );
                b.cen.queue_control( bytes{ LL_START_ENC_RSP } );
                b.cen.plan.burst = n_on + 1;
                b.cen.plan.max_exchanges = 16;
                b.run_once();
                if ( !b.settle( 30 ) ) break;

                // burst + LL_PAUSE_ENC_REQ in one connection event, then the LL_PAUSE_ENC_RSP of the central
                const unsigned n_off = b.rng.below( 9 );
                queue_event_pdus( n_off );
                b.cen.queue_control( bytes{ LL_PAUSE_ENC_REQ } );
                b.cen.plan.burst = n_off + 1;
                b.cen.plan.max_exchanges = 16;
                b.run_once();
                if ( !b.settle( 30 ) ) break;

                b.cen.queue_control( bytes{ LL_PAUSE_ENC_RSP } );
                if ( !b.settle( 30 ) ) break;
            }

            if ( !b.connected() ) continue;
        }

        // the burst: event producing PDUs in ONE connection event immediately before the terminating one
        const unsigned burst = b.rng.below( 9 );        // 0..8
        auto queue_burst = [&]() {
            for ( unsigned i = 0; i < burst; ++i )
            {
                switch ( b.rng.below( b.info.phy2m ? 6 : 5 ) )
                {
                case 0: b.cen.queue_control( bytes{ LL_REJECT_IND, static_cast< std::uint8_t >( 0x20 + i ) } ); break;
                case 1: b.cen.queue_control( bytes{ LL_REJECT_EXT_IND, 0x16, static_cast< std::uint8_t >( 0x20 + i ) } ); break;
                case 2: b.cen.queue_control( bytes{ LL_UNKNOWN_RSP, static_cast< std::uint8_t >( 0x14 + i ) } ); break;
                case 3: b.cen.queue_control( bytes{ LL_FEATURE_REQ, 0xff, 0, 0, 0, 0, 0, 0, 0 } ); break;
                case 4: b.cen.queue_control( bytes{ LL_VERSION_IND, 0x0a, 0x59, 0x00, static_cast< std::uint8_t >( i ), 0x00 } ); break;
                default: b.cen.queue_control( bytes{ LL_PHY_UPDATE_IND, 0, 0, 0, 0 } ); break;
                }
            }
        };

        std::string cause;
        bool central_gone = false;
        const unsigned end = scenario % 5;

        // now and then a connection update is still waiting for its instant when the end begins
        if ( end != 4 && b.info.rx_buffer >= 200 && b.rng.below( 8 ) == 0 )
        {
            bytes u( 12, 0 ); u[ 0 ] = LL_CONNECTION_UPDATE_IND; u[ 1 ] = 1; put16( u, 2, 0 ); put16( u, 4, cp.interval ); put16( u, 6, 0 ); put16( u, 8, cp.timeout );
            const std::uint16_t instant = static_cast< std::uint16_t >( b.ll->connection_event_counter() + 3 + b.rng.below( 4 ) );
            put16( u, 10, instant );
            b.cen.queue_control( u );
            b.instant_pending = true;
            b.run_once();
            m.cls( "life:update_pending_at_end" );
            // sometimes the end begins right in front of the instant
            if ( b.rng.below( 2 ) )
                for ( unsigned i = 0; i < 8 && b.connected() && static_cast< std::uint16_t >( b.ll->connection_event_counter() + 1 + b.rng.below( 2 ) ) < instant; ++i )
                    b.run_once();
            if ( !b.connected() ) continue;
        }

        if ( end == 0 || end == 1 )
        {
            cause = "remote_terminate";
            queue_burst();
            const std::uint8_t reason = static_cast< std::uint8_t >( b.rng.below( 2 ) ? 0x13 : b.rng.byte() );
            b.cen.queue_control( bytes{ LL_TERMINATE_IND, reason } );
            b.cen.plan.burst = burst + 1;
            b.cen.plan.max_exchanges = 16;
        }
        else if ( end == 2 )
        {
            cause = "local_disconnect";
            const bool custom = b.rng.below( 2 ) != 0;
            const std::uint8_t reason = custom ? static_cast< std::uint8_t >( 0x10 + b.rng.below( 0x30 ) ) : 0x16;
            b.local_disconnect( custom, reason );
            queue_burst();
            b.cen.plan.burst = burst;
            b.cen.plan.max_exchanges = 16;

            // the central may also be gone: the terminate is never acknowledged
            if ( b.rng.below( 4 ) == 0 )
            {
                cause = "local_disconnect_unacknowledged";
                b.life.cause = cause;
                central_gone = true;
                b.cen.drop_queue();
            }
        }
        else if ( end == 3 )
        {
            cause = "supervision_timeout";
            b.life.allow_reason( 0x08, cause );
            queue_burst();
            b.cen.plan.burst = burst;
            b.cen.plan.max_exchanges = 16;
            if ( burst ) b.run_once();
            b.cen.drop_queue();
        }
        else
        {
            cause = "instant_passed";
            queue_burst();
            bytes u( 12, 0 ); u[ 0 ] = LL_CONNECTION_UPDATE_IND; u[ 1 ] = 1; put16( u, 2, 0 ); put16( u, 4, cp.interval ); put16( u, 6, 0 ); put16( u, 8, cp.timeout );
            put16( u, 10, static_cast< std::uint16_t >( b.ll->connection_event_counter() - 10 - b.rng.below( 1000 ) ) );
            b.cen.queue_control( u );
            b.life.allow_reason( 0x28, cause );
            b.cen.plan.burst = burst + 1;
            b.cen.plan.max_exchanges = 16;
        }

        m.cls( "scenario:" + cause );

        bool was_silent = false;
        for ( unsigned i = 0; i < 3000 && b.connected() && !b.stalled; ++i )
        {
            if ( end == 3 || central_gone ) b.cen.plan.silent = true;
            else { b.cen.plan.burst = 16; b.cen.plan.max_exchanges = 16; }
            // a lost event now and then while the end is under way (never two in a row)
            if ( end != 3 && i > 0 && !was_silent && b.rng.below( 6 ) == 0 ) { b.cen.plan.silent = true; was_silent = true; }
            else was_silent = false;
            b.run_once();
        }

        if ( b.stalled )
        {
            b.fresh();
            continue;
        }

        if ( b.connected() )
        {
            verif::violation( "C29", "C29:hang:connection_does_not_end:" + cause, b.witness(), b.step );
            b.fresh();
        }
    }
}

// ------------------------------------------------------------------------------------------------
// C28: sequences over the encryption alphabet
enum enc_symbol { S_ENC_REQ_KNOWN, S_ENC_REQ_UNKNOWN, S_START_ENC_RSP, S_PAUSE_ENC_REQ, S_PAUSE_ENC_RSP, S_ATT_READ, S_RECONNECT, S_COUNT };

inline const char* enc_symbol_name( int s )
{
    static const char* n[] = { "ENC_REQ_known", "ENC_REQ_unknown", "START_ENC_RSP", "PAUSE_ENC_REQ", "PAUSE_ENC_RSP", "ATT_READ", "RECONNECT" };
    return n[ s ];
}

template < class Bed >
struct enc_driver
{
    Bed&            b;
    verif::monitor& m;

    explicit enc_driver( Bed& bed ) : b( bed ), m( verif::mon( "C28" ) ), terminate_with_next( false ) {}

    bool terminate_with_next;       // the next PDU is followed by LL_TERMINATE_IND in the same connection event

    bool ensure_connected()
    {
        if ( b.connected() ) return true;
        conn_params cp = b.random_params( 24 );
        if ( !b.connect( cp ) ) return false;
        b.run_events( 2 );
        return b.connected();
    }

    bytes enc_req( bool known )
    {
        bytes p( 23 );
        for ( auto& x : p ) x = b.rng.byte();
        p[ 0 ] = LL_ENC_REQ;

        key_table_t& kt = *Bed::keys();
        if ( known && !kt.keys.empty() )
        {
            const auto& k = kt.keys[ b.rng.below( static_cast< std::uint32_t >( kt.keys.size() ) ) ];
            for ( unsigned i = 0; i < 8; ++i ) p[ 1 + i ] = static_cast< std::uint8_t >( k.rand >> ( 8 * i ) );
            put16( p, 9, k.ediv );
        }
        else
        {
            // unknown: differs from every table entry (sometimes in EDIV only, sometimes in Rand only)
            for ( ;; )
            {
                if ( !kt.keys.empty() && b.rng.below( 2 ) )
                {
                    const auto& k = kt.keys[ b.rng.below( static_cast< std::uint32_t >( kt.keys.size() ) ) ];
                    for ( unsigned i = 0; i < 8; ++i ) p[ 1 + i ] = static_cast< std::uint8_t >( k.rand >> ( 8 * i ) );
                    put16( p, 9, k.ediv );
                    if ( b.rng.below( 2 ) ) p[ 9 ] ^= 0x01; else p[ 1 + b.rng.below( 8 ) ] ^= 0x80;
                }
                std::uint64_t rand = 0; for ( unsigned i = 0; i < 8; ++i ) rand |= static_cast< std::uint64_t >( p[ 1 + i ] ) << ( 8 * i );
                if ( !kt.known( static_cast< std::uint16_t >( rd16( p, 9 ) ), rand ) ) break;
                p[ 2 ] = b.rng.byte();
            }
        }
        return p;
    }

    void probe( const char* via )
    {
        if ( Bed::rec().enc_probe )
            b.enc.observed_encrypted( Bed::rec().enc_probe(), via );
    }

    // returns false if the test bed had to be renewed
    bool apply( int s )
    {
        if ( s == S_RECONNECT )
        {
            m.cls( "sym:RECONNECT" );
            if ( b.connected() )
            {
                if ( b.rng.below( 2 ) ) b.cen.queue_control( bytes{ LL_TERMINATE_IND, 0x13 } );
                else b.local_disconnect( false, 0 );
                for ( unsigned i = 0; i < 6000 && b.connected(); ++i ) b.run_once();
                if ( b.connected() ) { verif::violation( "C28", "C28:hang:disconnect", b.witness(), b.step ); b.fresh(); return false; }
            }
            b.enc.sym( "RECONNECT" );
            if ( !ensure_connected() ) return false;
            probe( "security_attributes after reconnect" );
            return true;
        }

        if ( !ensure_connected() ) return false;

        m.cls( std::string( "sym:" ) + enc_symbol_name( s ) );

        switch ( s )
        {
        case S_ENC_REQ_KNOWN:   b.cen.queue_control( enc_req( true ) ); break;
        case S_ENC_REQ_UNKNOWN: b.cen.queue_control( enc_req( false ) ); break;
        case S_START_ENC_RSP:   b.cen.queue_control( bytes{ LL_START_ENC_RSP } ); break;
        case S_PAUSE_ENC_REQ:   b.cen.queue_control( bytes{ LL_PAUSE_ENC_REQ } ); break;
        case S_PAUSE_ENC_RSP:   b.cen.queue_control( bytes{ LL_PAUSE_ENC_RSP } ); break;
        case S_ATT_READ:
        {
            b.enc.sym( "ATT_READ" );
            b.att_rx.clear();
            b.cen.queue_att( bytes{ 0x0a, static_cast< std::uint8_t >( Bed::protected_handle ), 0x00 } );
            break;
        }
        default: break;
        }

        b.cen.plan.burst = 1;

        if ( terminate_with_next )
        {
            terminate_with_next = false;
            b.cen.queue_control( bytes{ LL_TERMINATE_IND, 0x13 } );
            b.cen.plan.burst = 2;
            m.cls( "terminate_in_same_event" );
        }

        if ( !b.settle( 40 ) ) { probe( "security_attributes" ); return b.connected(); }

        if ( s == S_ATT_READ )
        {
            if ( b.att_rx.empty() )
                m.count( "att_read_unanswered" );
            else
            {
                const bytes& a = b.att_rx.front();
                // Read Response (0x0b) carrying the secret
                const bool value = a.size() >= 1 && a[ 0 ] == 0x0b;
                b.enc.observed_protected_read( value, a );
            }
        }

        probe( "security_attributes" );
        return true;
    }

    void run_sequence( const std::vector< int >& seq )
    {
        b.enc.history.clear();
        // every sequence starts from a new connection on a link layer that may have been encrypted before
        if ( b.connected() )
            apply( S_RECONNECT );
        else
            ensure_connected();

        b.enc.history.clear();

        for ( std::size_t i = 0; i < seq.size(); ++i )
        {
            const int s = seq[ i ];
            // RECONNECT right after a PDU: now and then the terminate travels in the same connection event
            terminate_with_next = s != S_RECONNECT && s != S_ATT_READ && i + 1 < seq.size() && seq[ i + 1 ] == S_RECONNECT && b.rng.below( 2 ) == 0;

            if ( !apply( s ) && !b.connected() && s != S_RECONNECT )
                if ( !ensure_connected() ) break;
        }
    }
};

template < class Bed >
void drive_enc( Bed& b, unsigned depth, unsigned part, unsigned parts, unsigned long random_ops )
{
    verif::monitor& m = verif::mon( "C28" );
    verif::ctx_prop( "C28" );

    // key table: a few bonds
    key_table_t& kt = *Bed::keys();
    kt.keys.clear();
    for ( unsigned i = 0; i < 3; ++i )
    {
        key_table_t::entry e;
        e.ediv = static_cast< std::uint16_t >( b.rng.next() );
        e.rand = b.rng.next();
        for ( auto& x : e.key ) x = b.rng.byte();
        kt.keys.push_back( e );
    }
    // the "no EDIV/Rand" pair of LE secure connections and legacy short term keys is not a key unless it is in the table
    if ( b.rng.below( 2 ) ) { key_table_t::entry e; e.ediv = 0; e.rand = 0; for ( auto& x : e.key ) x = b.rng.byte(); kt.keys.push_back( e ); }

    enc_driver< Bed > d( b );
    b.enc_check_callbacks = true;
    b.life.track_changes = true;

    // exhaustive part: all sequences of length 1..depth, this process takes those whose index % parts == part
    unsigned long index = 0, done = 0;
    for ( unsigned len = 1; len <= depth; ++len )
    {
        std::vector< int > seq( len, 0 );
        for ( ;; )
        {
            if ( index++ % parts == part )
            {
                d.run_sequence( seq );
                ++done;
                if ( done % 200 == 0 ) b.fresh();
            }

            unsigned i = 0;
            for ( ; i < len; ++i )
            {
                if ( ++seq[ i ] < S_COUNT ) break;
                seq[ i ] = 0;
            }
            if ( i == len ) break;
        }
    }
    m.count( "sequences_enumerated", done );
    if ( parts == 1 ) m.exhaustive = false;

    // random longer ones
    for ( unsigned long n = 0; n < random_ops; ++n )
    {
        const unsigned len = 6 + b.rng.below( 10 );
        std::vector< int > seq( len );
        for ( auto& s : seq ) s = static_cast< int >( b.rng.below( S_COUNT ) );
        d.run_sequence( seq );
        if ( n % 100 == 99 ) b.fresh();
    }
    m.count( "sequences_random", random_ops );
    m.count( "key_lookups", kt.lookups );
}

// ------------------------------------------------------------------------------------------------
template < class Bed >
int main_impl( int argc, char** argv )
{
    verif::args a( argc, argv );
    verif::install_crash_handler();

    const std::uint64_t seed = a.num( "seed", 1 );
    const std::string   mode = a.str( "mode", "ctrl" );
    const unsigned long ops  = static_cast< unsigned long >( a.num( "ops", 1000 ) );

    verif::run_config() = Bed::config_name() + std::string( "/" ) + mode;
    verif::ctx_config( verif::run_config() );

    {
        Bed b( seed * 0x9e3779b97f4a7c15ull + verif::hstr( mode ) );
        b.run_tag = mode + " seed=" + std::to_string( seed );

        if ( mode == "ctrl" )           drive_ctrl( b, ops );
        else if ( mode == "timeout" )   drive_timeout( b, ops );
        else if ( mode == "life" )      drive_life( b, ops );
        else if ( mode == "enc" && b.info.security )
            drive_enc( b, static_cast< unsigned >( a.num( "depth", 3 ) ), static_cast< unsigned >( a.num( "part", 0 ) ), static_cast< unsigned >( a.num( "parts", 1 ) ), ops );
        else { std::fprintf( stderr, "unknown mode\n" ); return 3; }

        verif::mon( "C27" ).count( "steps", b.step );
        verif::mon( "C29" ).count( "callbacks", Bed::rec().calls );
        verif::mon( "C27" ).count( "conn_events", b.ll->end_events + b.ll->timeouts );
    }

    verif::finish();
    return 0;
}

}

#endif
