// llctrl family: simulated scheduled radio on VIRTUAL TIME (microseconds).
//
// Implements the radio interface documented in bluetoe/link_layer/scheduled_radio.hpp and derives from
// the real ll_data_pdu_buffer, so that sequence numbers, acknowledgement, retransmission and buffer
// management are the code under test.  Nothing here is an oracle: the radio only moves PDUs between the
// link layer and a peer object (the central model, central.hpp), advances the virtual clock and logs
// every scheduling call and every callback it makes.
//
// Contract taken from scheduled_radio.hpp:
//  * exactly one of timeout() / end_event() per scheduled connection event, called from run();
//  * timeout(): T0 stays, end_event(): T0 becomes the time the first PDU of the central was received;
//  * adv_received()/adv_timeout() per scheduled advertisement;
//  * a PDU that can not be stored (no receive buffer) is not acknowledged (next_transmit() only), which is
//    what the nRF52 binding does.
#ifndef VERIF_LLCTRL_SIM_RADIO_HPP
#define VERIF_LLCTRL_SIM_RADIO_HPP

#include <bluetoe/link_layer.hpp>
#include <bluetoe/ll_data_pdu_buffer.hpp>
#include <bluetoe/delta_time.hpp>
#include <bluetoe/buffer.hpp>
#include <bluetoe/connection_events.hpp>
#include <bluetoe/phy_encodings.hpp>

#include "common/verif.hpp"

#include <deque>
#include <string>
#include <vector>
#include <array>

namespace llctrl {

typedef std::vector< std::uint8_t > bytes;

// What the radio needs from the other side of the air.  PDUs are in over-the-air format: 2 octets header
// followed by `header[1]` octets of payload.
struct peer_iface
{
    virtual ~peer_iface() {}

    // An advertising PDU was sent on `channel` at virtual time `now_us`.  Return true and fill connect_ind to
    // answer with a CONNECT_IND.
    virtual bool on_advertising( unsigned channel, const bytes& adv_pdu, std::uint64_t now_us, bytes& connect_ind ) = 0;

    // A connection event was scheduled; `nominal_us` is the centre of the receive window.  Return false if the
    // central stays silent in this event.
    virtual bool on_event_begin( unsigned channel, std::uint64_t nominal_us ) = 0;

    // Next PDU the central puts on air in the open event.  Return false when the central closes the event.
    // lost=true: the PDU is transmitted but the peripheral does not hear it.
    virtual bool central_transmit( bytes& pdu, bool& lost ) = 0;

    // The peripheral's PDU.  rx/tx_encrypted: state of the radio's encryption entry points when it was sent.
    virtual void central_receive( const bytes& pdu, bool tx_encrypted, std::uint64_t now_us ) = 0;

    virtual void on_event_end( bool timeout ) = 0;

    // ground truth: the last PDU of the central reached the peripheral's radio; stored = it was handed to the link
    // layer's buffer (received()), otherwise there was no receive buffer and it was ignored
    virtual void peripheral_heard( bool /* stored */ ) {}
};

struct log_entry
{
    std::uint64_t   t;
    const char*     what;
    long long       a, b, c, d;
    bytes           data;
};

// ------------------------------------------------------------------------------------------------
// non template part: clock, log, scheduling state
class sim_core
{
public:
    sim_core()
        : peer( nullptr ), now_us( 0 ), anchor_us( 0 ), sched_( none ), wake_ups_( 0 ), cancel_requested_( false )
        , access_address( 0 ), crc_init( 0 ), aa_valid_( false )
        , rx_phy( 1 ), tx_phy( 1 )
        , rx_encrypted( false ), tx_encrypted( false ), setup_encryption_calls( 0 )
        , start_rx_enc_calls( 0 ), start_tx_enc_calls( 0 ), stop_rx_enc_calls( 0 ), stop_tx_enc_calls( 0 )
        , adv_scheduled( 0 ), conn_scheduled( 0 ), timeouts( 0 ), end_events( 0 ), rx_no_buffer( 0 )
        , rx_counter( 0 ), tx_counter( 0 ), idle_runs( 0 ), user_timer_set_( false )
        , log_limit( 96 )
    {
        key.fill( 0 );
    }

    peer_iface*     peer;
    std::uint64_t   now_us;
    std::uint64_t   anchor_us;          // T0

    std::uint32_t   access_address;
    std::uint32_t   crc_init;
    unsigned        rx_phy, tx_phy;

    // encryption entry points (hardware state)
    bool            rx_encrypted, tx_encrypted;
    std::array< std::uint8_t, 16 > key;
    std::uint64_t   skdm; std::uint32_t ivm;
    unsigned long   setup_encryption_calls, start_rx_enc_calls, start_tx_enc_calls, stop_rx_enc_calls, stop_tx_enc_calls;

    // statistics
    unsigned long   adv_scheduled, conn_scheduled, timeouts, end_events, rx_no_buffer, rx_counter, tx_counter, idle_runs;

    std::size_t     log_limit;
    std::deque< log_entry > log;

    void note( const char* what, long long a = 0, long long b = 0, long long c = 0, long long d = 0, const bytes& data = bytes() )
    {
        static const bool trace = std::getenv( "LLCTRL_TRACE" ) != nullptr;
        if ( trace ) std::fprintf( stderr, "    [%llu %s %lld %lld %lld %lld %s]\n", static_cast< unsigned long long >( now_us ), what, a, b, c, d, verif::hex( data ).c_str() );
        log.push_back( log_entry{ now_us, what, a, b, c, d, data } );
        if ( log.size() > log_limit )
            log.pop_front();
    }

    std::string dump_log( std::size_t last = 40 ) const
    {
        std::string r;
        std::size_t start = log.size() > last ? log.size() - last : 0;
        for ( std::size_t i = start; i < log.size(); ++i )
        {
            const log_entry& e = log[ i ];
            char b[ 160 ];
            std::snprintf( b, sizeof b, "[%llu %s %lld %lld %lld %lld", static_cast< unsigned long long >( e.t ), e.what, e.a, e.b, e.c, e.d );
            r += b;
            if ( !e.data.empty() ) { r += " "; r += verif::hex( e.data ); }
            r += "] ";
        }
        return r;
    }

    bool is_advertising_scheduled() const { return sched_ == adv; }
    bool is_connection_event_scheduled() const { return sched_ == conn; }
    bool is_idle() const { return sched_ == none; }

    // ---- parts of the scheduled_radio interface that do not depend on template parameters
    void set_access_address_and_crc_init( std::uint32_t aa, std::uint32_t crc )
    {
        access_address = aa; crc_init = crc; aa_valid_ = true;
        note( "set_aa", aa, crc );
    }

    std::uint32_t static_random_address_seed() const { return 0x47110815; }

    void wake_up() { ++wake_ups_; }
    void request_event_cancelation() { cancel_requested_ = true; }

    class lock_guard
    {
    public:
        lock_guard() {}
        ~lock_guard() {}
        lock_guard( const lock_guard& ) = delete;
        lock_guard& operator=( const lock_guard& ) = delete;
    };

    static constexpr std::size_t radio_maximum_white_list_entries = 0;
    static constexpr std::size_t radio_package_overhead = 0;
    static constexpr unsigned connection_event_setup_time_us = 100u;

    void increment_receive_packet_counter() { ++rx_counter; }
    void increment_transmit_packet_counter() { ++tx_counter; }

    void radio_set_phy( bluetoe::link_layer::phy_ll_encoding::phy_ll_encoding_t receiving_encoding,
                        bluetoe::link_layer::phy_ll_encoding::phy_ll_encoding_t transmiting_c_encoding )
    {
        rx_phy = receiving_encoding; tx_phy = transmiting_c_encoding;
        note( "set_phy", rx_phy, tx_phy );
    }

    bool schedule_synchronized_user_timer( bluetoe::link_layer::delta_time t, bluetoe::link_layer::delta_time )
    {
        user_timer_set_ = true; note( "user_timer", t.usec() ); return true;
    }
    bool cancel_synchronized_user_timer() { const bool r = user_timer_set_; user_timer_set_ = false; return r; }

protected:
    enum sched_t { none, adv, conn } sched_;
    int             wake_ups_;
    bool            cancel_requested_;
    bool            aa_valid_;
    bool            user_timer_set_;

    // advertisement
    unsigned        adv_channel_;
    bytes           adv_pdu_;
    std::uint32_t   adv_when_us_;
    bluetoe::link_layer::read_buffer adv_receive_;

    // connection event
    unsigned        ev_channel_;
    std::uint32_t   ev_start_us_, ev_end_us_, ev_interval_us_;
};

// ------------------------------------------------------------------------------------------------
template < std::size_t TransmitSize, std::size_t ReceiveSize, typename CallBack, bool Phy2MBit >
class radio_impl :
    public sim_core,
    public bluetoe::link_layer::ll_data_pdu_buffer< TransmitSize, ReceiveSize, radio_impl< TransmitSize, ReceiveSize, CallBack, Phy2MBit > >
{
public:
    typedef bluetoe::link_layer::ll_data_pdu_buffer< TransmitSize, ReceiveSize, radio_impl< TransmitSize, ReceiveSize, CallBack, Phy2MBit > > buffer_t;
    typedef bluetoe::link_layer::default_pdu_layout layout;

    static constexpr bool hardware_supports_encryption = false;
    static constexpr bool hardware_supports_2mbit = Phy2MBit;
    static constexpr bool hardware_supports_synchronized_user_timer = true;

    void schedule_advertisment(
        unsigned                                    channel,
        const bluetoe::link_layer::write_buffer&    advertising_data,
        const bluetoe::link_layer::write_buffer&    /* response_data */,
        bluetoe::link_layer::delta_time             when,
        const bluetoe::link_layer::read_buffer&     receive )
    {
        if ( sched_ != none )
            note( "double_schedule", sched_ );

        sched_       = adv;
        adv_channel_ = channel;
        adv_when_us_ = when.usec();
        adv_receive_ = receive;
        adv_pdu_.clear();
        if ( advertising_data.buffer && advertising_data.size >= 2 )
        {
            const std::size_t len = std::min< std::size_t >( ( advertising_data.buffer[ 1 ] & 0x3f ) + 2u, advertising_data.size );
            adv_pdu_.assign( advertising_data.buffer, advertising_data.buffer + len );
        }
        ++adv_scheduled;
        note( "sched_adv", channel, when.usec(), adv_pdu_.size() );
    }

    bluetoe::link_layer::delta_time schedule_connection_event(
        unsigned                                    channel,
        bluetoe::link_layer::delta_time             start_receive,
        bluetoe::link_layer::delta_time             end_receive,
        bluetoe::link_layer::delta_time             connection_interval )
    {
        if ( sched_ != none )
            note( "double_schedule", sched_ );

        sched_          = conn;
        ev_channel_     = channel;
        ev_start_us_    = start_receive.usec();
        ev_end_us_      = end_receive.usec();
        ev_interval_us_ = connection_interval.usec();
        ++conn_scheduled;
        note( "sched_conn", channel, ev_start_us_, ev_end_us_, ev_interval_us_ );

        const std::uint64_t start_abs = anchor_us + ev_start_us_;
        return start_abs > now_us
            ? bluetoe::link_layer::delta_time( static_cast< std::uint32_t >( start_abs - now_us ) )
            : bluetoe::link_layer::delta_time();
    }

    std::pair< bool, bluetoe::link_layer::delta_time > disarm_connection_event()
    {
        // events are executed synchronously by run(); between two calls to run() the event is always far away
        if ( sched_ != conn )
            return std::pair< bool, bluetoe::link_layer::delta_time >( false, bluetoe::link_layer::delta_time() );

        sched_ = none;
        note( "disarm" );
        return std::pair< bool, bluetoe::link_layer::delta_time >( true,
            bluetoe::link_layer::delta_time( static_cast< std::uint32_t >( now_us - anchor_us ) ) );
    }

    // executes what was scheduled, calls exactly one callback for it and returns
    void run()
    {
        if ( sched_ == adv )
            run_advertisement();
        else if ( sched_ == conn )
            run_connection_event();
        else
            ++idle_runs;

        if ( cancel_requested_ )
        {
            cancel_requested_ = false;
            note( "cb_try_cancel" );
            static_cast< CallBack* >( this )->try_event_cancelation();
        }

        if ( wake_ups_ )
            --wake_ups_;
    }

private:
    void run_advertisement()
    {
        sched_ = none;
        now_us += adv_when_us_;

        bytes connect_ind;
        const bool answer = peer && peer->on_advertising( adv_channel_, adv_pdu_, now_us, connect_ind );

        // air time of the advertising PDU + T_IFS
        now_us += 8 * ( adv_pdu_.size() + 8 ) + 150;

        if ( answer && adv_receive_.size >= 2 )
        {
            bluetoe::link_layer::read_buffer r = adv_receive_;
            const std::size_t n = std::min< std::size_t >( connect_ind.size(), r.size );
            std::copy( connect_ind.begin(), connect_ind.begin() + n, r.buffer );
            r.size = n;

            now_us   += 8 * ( connect_ind.size() + 8 );
            anchor_us = now_us;     // T0: end of the connect request

            note( "cb_adv_received", adv_channel_, n, 0, 0, connect_ind );
            static_cast< CallBack* >( this )->adv_received( r );
        }
        else
        {
            note( "cb_adv_timeout", adv_channel_ );
            static_cast< CallBack* >( this )->adv_timeout();
        }
    }

    void run_connection_event()
    {
        static constexpr std::uint8_t more_data_flag = 0x10;

        sched_ = none;

        const std::uint64_t nominal = anchor_us + ( static_cast< std::uint64_t >( ev_start_us_ ) + ev_end_us_ ) / 2;
        const std::uint64_t window_end = anchor_us + ev_end_us_;

        bluetoe::link_layer::connection_event_events evts;

        bool first    = true;
        bool silent   = !( peer && peer->on_event_begin( ev_channel_, nominal ) );

        for ( unsigned exchange = 0; !silent && exchange < 32; ++exchange )
        {
            bytes c;
            bool  lost = false;

            if ( !peer->central_transmit( c, lost ) )
                break;

            if ( lost )
            {
                note( "air_lost_c2p", exchange, 0, 0, 0, c );
                if ( first )
                    silent = true;
                break;
            }

            if ( first )
            {
                anchor_us = nominal;
                now_us    = nominal;
                first     = false;
            }

            // the peripheral receives
            bluetoe::link_layer::write_buffer response;
            bluetoe::link_layer::read_buffer  rb = this->allocate_receive_buffer();

            const std::size_t air_len = std::min< std::size_t >( c.size(), 2u + ( c.size() >= 2 ? c[ 1 ] : 0 ) );

            if ( rb.size == 0 || rb.size < air_len )
            {
                ++rx_no_buffer;
                note( "rx_no_buffer", exchange, rb.size, air_len, 0, c );
                response = this->next_transmit();
                peer->peripheral_heard( false );
            }
            else
            {
                std::copy( c.begin(), c.begin() + air_len, rb.buffer );
                rb.size = air_len;
                note( "rx", exchange, rx_encrypted, 0, 0, c );
                peer->peripheral_heard( true );
                response = this->received( rb );

                evts.last_received_not_empty     = c[ 1 ] != 0;
                evts.last_received_had_more_data = ( c[ 0 ] & more_data_flag ) != 0;
            }

            now_us += 8 * ( air_len + 8 ) + 150;

            bytes p;
            if ( response.buffer && response.size >= 2 )
            {
                const std::size_t plen = std::min< std::size_t >( response.size, 2u + response.buffer[ 1 ] );
                p.assign( response.buffer, response.buffer + plen );
            }

            if ( p.size() >= 2 && p[ 1 ] != 0 )
                evts.last_transmitted_not_empty = true;

            note( "tx", exchange, tx_encrypted, 0, 0, p );
            now_us += 8 * ( p.size() + 8 ) + 150;

            peer->central_receive( p, tx_encrypted, now_us );
        }

        if ( silent || first )
        {
            // nothing heard in the window: T0 stays
            if ( now_us < window_end )
                now_us = window_end;

            ++timeouts;
            note( "cb_timeout", ev_channel_ );
            if ( peer ) peer->on_event_end( true );
            static_cast< CallBack* >( this )->timeout();
        }
        else
        {
            ++end_events;
            note( "cb_end_event", ev_channel_, evts.last_received_not_empty, evts.last_transmitted_not_empty );
            peer->on_event_end( false );
            static_cast< CallBack* >( this )->end_event( evts );
        }
    }
};

template < std::size_t TransmitSize, std::size_t ReceiveSize, typename CallBack >
using radio_1m = radio_impl< TransmitSize, ReceiveSize, CallBack, false >;

template < std::size_t TransmitSize, std::size_t ReceiveSize, typename CallBack >
using radio_2m = radio_impl< TransmitSize, ReceiveSize, CallBack, true >;

// ------------------------------------------------------------------------------------------------
// radio with the encryption entry points and the part of the security tool box a legacy security manager
// uses.  The tool box functions are deterministic stand-ins (no cryptography is decided in this family;
// C37 checks the real tool box): what matters here is *when* the link layer calls the entry points.
template < std::size_t TransmitSize, std::size_t ReceiveSize, typename CallBack, bool Phy2MBit >
class radio_enc_impl : public radio_impl< TransmitSize, ReceiveSize, CallBack, Phy2MBit >
{
public:
    static constexpr bool hardware_supports_lesc_pairing   = false;
    static constexpr bool hardware_supports_legacy_pairing = true;
    static constexpr bool hardware_supports_encryption     = true;

    bluetoe::details::uint128_t create_srand()
    {
        bluetoe::details::uint128_t r;
        for ( std::size_t i = 0; i != r.size(); ++i ) r[ i ] = static_cast< std::uint8_t >( 0xA0 + i );
        return r;
    }

    bluetoe::details::longterm_key_t create_long_term_key()
    {
        bluetoe::details::longterm_key_t k;
        for ( std::size_t i = 0; i != k.longterm_key.size(); ++i ) k.longterm_key[ i ] = static_cast< std::uint8_t >( 0x10 + i );
        k.rand = 0x1122334455667788ull;
        k.ediv = 0x4711;
        return k;
    }

    bluetoe::details::uint128_t c1( const bluetoe::details::uint128_t& temp_key, const bluetoe::details::uint128_t& rand,
        const bluetoe::details::uint128_t& p1, const bluetoe::details::uint128_t& p2 ) const
    {
        bluetoe::details::uint128_t r;
        for ( std::size_t i = 0; i != r.size(); ++i ) r[ i ] = temp_key[ i ] ^ rand[ i ] ^ p1[ i ] ^ p2[ i ];
        return r;
    }

    bluetoe::details::uint128_t s1( const bluetoe::details::uint128_t& temp_key, const bluetoe::details::uint128_t& prand, const bluetoe::details::uint128_t& crand )
    {
        bluetoe::details::uint128_t r;
        for ( std::size_t i = 0; i != r.size(); ++i ) r[ i ] = temp_key[ i ] ^ prand[ i ] ^ crand[ ( i + 8 ) % 16 ];
        return r;
    }

    bluetoe::details::uint128_t create_passkey()
    {
        bluetoe::details::uint128_t r; r.fill( 0 ); r[ 0 ] = 0x40; r[ 1 ] = 0xe2; r[ 2 ] = 0x01;
        return r;
    }

    std::pair< std::uint64_t, std::uint32_t > setup_encryption( bluetoe::details::uint128_t k, std::uint64_t skdm_, std::uint32_t ivm_ )
    {
        ++this->setup_encryption_calls;
        this->key  = k;
        this->skdm = skdm_;
        this->ivm  = ivm_;
        this->note( "setup_encryption", 0, 0, 0, 0, bytes( k.begin(), k.end() ) );
        return std::pair< std::uint64_t, std::uint32_t >( 0x3fac22107855aa56ull, 0x78563412u );
    }

    void start_receive_encrypted()  { ++this->start_rx_enc_calls; this->rx_encrypted = true;  this->note( "start_rx_enc" ); }
    void start_transmit_encrypted() { ++this->start_tx_enc_calls; this->tx_encrypted = true;  this->note( "start_tx_enc" ); }
    void stop_receive_encrypted()   { ++this->stop_rx_enc_calls;  this->rx_encrypted = false; }
    void stop_transmit_encrypted()  { ++this->stop_tx_enc_calls;  this->tx_encrypted = false; }
};

template < std::size_t TransmitSize, std::size_t ReceiveSize, typename CallBack >
using radio_enc_1m = radio_enc_impl< TransmitSize, ReceiveSize, CallBack, false >;

template < std::size_t TransmitSize, std::size_t ReceiveSize, typename CallBack >
using radio_enc_2m = radio_enc_impl< TransmitSize, ReceiveSize, CallBack, true >;

}

#endif
