// C37 / C38: the unmodified nRF52 security tool box (bluetoe/bindings/nordic/nrf52/security_tool_box.cpp + uECC.c)
// running on the host over the emulated RNG / ECB peripherals of /verif/stubs/nrf/nrf.h.
//
// C37  differential + known answer: c1, s1, f4, f5, f6, g2 (and aes_le, p256, generate_keys) against /verif/refimpl
//      (FIPS-197 / RFC 4493 / Core Vol 3 Part H 2.2 written from the specification's byte layouts);
//      is_valid_public_key against the reference predicate 0 <= x,y < p, y^2 = x^3 - 3x + b.
// C38  create_passkey(): range of the displayed value, zero padding of the temporary key, exact preimage
//      counting over all 2^24 three-byte RNG prefixes, chi-square statistics with fixed thresholds.
//
// --mode=c37|c38|all  --seed=N  --ops=N (random inputs per function)  --points=N (public keys / DH)
// --passkeys=N (statistical samples)  --adversarial=N  --exact=0|1
#include <bluetoe/security_tool_box.hpp>
#include <bluetoe/address.hpp>
#include <nrf.h>

#include "common/verif.hpp"
#include "aes128.hpp"
#include "cmac.hpp"
#include "smp_crypto.hpp"
#include "p256.hpp"

#include <string>
#include <vector>
#include <utility>
#include <algorithm>

using verif::mon;
namespace bd = bluetoe::details;
namespace ll = bluetoe::link_layer;
typedef bluetoe::nrf52_details::security_tool_box toolbox;
using refimpl::u128;

static unsigned long long g_step = 0;
static bool g_emit_kat_sample = false;

// ------------------------------------------------------------------------------------------ RNG stream
// What the emulated RNG peripheral hands out: an optional fixed prefix, then a seeded PRNG.  Every adversarial
// pattern is a finite prefix: "every passkey the peripheral generates" quantifies over what a hardware RNG
// can deliver, and an implementation that draws again after an unusable value must be able to terminate.
struct runaway {};
struct rng_stream {
    verif::prng          tail;
    std::vector<std::uint8_t> prefix;
    std::size_t          pos;
    unsigned long long   drawn;          // in the current call
    unsigned long long   limit;
    std::vector<std::uint8_t> log;       // first bytes handed out in the current call (witness)
    rng_stream() : tail(1), pos(0), drawn(0), limit(100000) {}
    void begin_call() { drawn = 0; log.clear(); }
    void set_prefix(const std::vector<std::uint8_t>& p) { prefix = p; pos = 0; }
    static std::uint8_t next(void* ctx) {
        rng_stream& s = *static_cast<rng_stream*>(ctx);
        if (++s.drawn > s.limit) throw runaway();
        std::uint8_t b;
        if (s.pos < s.prefix.size()) b = s.prefix[s.pos++];
        else b = s.tail.byte();
        if (s.log.size() < 48) s.log.push_back(b);
        return b;
    }
};
static rng_stream g_rng;

// ------------------------------------------------------------------------------------------ helpers
static u128 to_ref(const bd::uint128_t& a) { u128 r; std::copy(a.begin(), a.end(), r.begin()); return r; }
static bd::uint128_t to_bt(const u128& a) { bd::uint128_t r; std::copy(a.begin(), a.end(), r.begin()); return r; }
static std::string hx(const u128& a) { return verif::hex(a.data(), 16); }
static std::string hx(const std::uint8_t* p, std::size_t n) { return verif::hex(p, n); }

// specification notation (most significant octet first hex, blanks allowed) -> little-endian bytes
static std::vector<std::uint8_t> le(const char* s)
{
    std::vector<std::uint8_t> v;
    int hi = -1;
    for (; *s; ++s) {
        int d;
        if (*s >= '0' && *s <= '9') d = *s - '0';
        else if (*s >= 'a' && *s <= 'f') d = *s - 'a' + 10;
        else if (*s >= 'A' && *s <= 'F') d = *s - 'A' + 10;
        else continue;
        if (hi < 0) hi = d; else { v.push_back(static_cast<std::uint8_t>(hi * 16 + d)); hi = -1; }
    }
    std::reverse(v.begin(), v.end());
    return v;
}
static u128 le128(const char* s) { const std::vector<std::uint8_t> v = le(s); u128 r; std::copy(v.begin(), v.end(), r.begin()); return r; }

// input classes for 128 bit values
enum { V_RANDOM, V_ZERO, V_ONES, V_ONE_BIT, V_MSB_ONLY, V_LOW_BYTE, V_CLASSES };
static const char* vname(int c) { static const char* n[] = { "random", "zero", "ones", "one_bit", "msb_only", "low_byte" }; return n[c]; }
static int pick_class(verif::prng& r) { return r.chance(3, 5) ? V_RANDOM : r.range(0, V_CLASSES - 1); }
static void fill(verif::prng& r, int cls, std::uint8_t* p, std::size_t n)
{
    switch (cls) {
    case V_ZERO: std::memset(p, 0, n); break;
    case V_ONES: std::memset(p, 0xff, n); break;
    case V_ONE_BIT: { std::memset(p, 0, n); const unsigned b = r.below(static_cast<std::uint32_t>(8 * n)); p[b / 8] = static_cast<std::uint8_t>(1u << (b % 8)); break; }
    case V_MSB_ONLY: std::memset(p, 0, n); p[n - 1] = 0x80; break;
    case V_LOW_BYTE: std::memset(p, 0, n); p[0] = r.byte(); break;
    default: for (std::size_t i = 0; i < n; ++i) p[i] = r.byte();
    }
}
static u128 gen128(verif::prng& r, int cls) { u128 v; fill(r, cls, v.data(), 16); return v; }

struct addr_pair {
    std::uint8_t a[6], b[6];
    bool a_random, b_random;
};
static addr_pair gen_addrs(verif::prng& r, unsigned type_combination)
{
    addr_pair p;
    const int ca = r.chance(3, 4) ? V_RANDOM : r.range(0, V_CLASSES - 1), cb = r.chance(3, 4) ? V_RANDOM : r.range(0, V_CLASSES - 1);
    fill(r, ca, p.a, 6); fill(r, cb, p.b, 6);
    if (r.chance(1, 16)) std::memcpy(p.b, p.a, 6);          // both devices with equal address bytes, types may differ
    p.a_random = type_combination & 1; p.b_random = type_combination & 2;
    return p;
}
static const char* tname(unsigned t) { static const char* n[] = { "addr_public_public", "addr_random_public", "addr_public_random", "addr_random_random" }; return n[t & 3]; }

static void report(const std::string& key, const std::string& detail)
{
    verif::violation("C37", key, detail, g_step);
}

// cold path helpers kept out of line (the call sites stay small: this file is compiled with ASan+UBSan)
struct field { const char* name; const std::uint8_t* p; std::size_t n; };
__attribute__((noinline)) static void fail(const char* key, const field* in, int n_in, const char* note = "")
{
    std::string d;
    for (int i = 0; i < n_in; ++i) { if (i) d += " "; d += in[i].name; d += " "; d += verif::hex(in[i].p, in[i].n); }
    d += " (all little-endian)"; d += note;
    report(key, d);
}
__attribute__((noinline)) static void cls37(const char* c) { mon("C37").cls(c); }
__attribute__((noinline)) static void keycls37(int c) { static const char* n[] = { "key_random", "key_zero", "key_ones", "key_one_bit", "key_msb_only", "key_low_byte" }; mon("C37").cls(n[c]); }

static void begin_op(const char* what)
{
    static const char* last = 0;
    ++g_step;
    verif::ctx_step(g_step);
    if (what != last) { verif::ctx_op(what); last = what; }     // labels are string literals
    g_rng.begin_call();
}

// ------------------------------------------------------------------------------------------ C37: known answers
// Expected values are the specification's (Core Vol 3 Part H 2.2.3, 2.2.4, Appendix D; Vol 2 Part G 7.1.2), each
// confirmed with the openssl command line / python3 big integers (see refimpl/selftest.cpp).
__attribute__((noinline)) static void kat(const char* cls, const char* key, const char* what, const std::uint8_t* got, std::size_t n, const char* want_msb_first)
{
    mon("C37").eval(); cls37(cls);
    const std::vector<std::uint8_t> want = le(want_msb_first);
    if (want.size() != n || !std::equal(want.begin(), want.end(), got))
        report(key, std::string(what) + ": expected " + want_msb_first + " (most significant octet first), got (little-endian) " + verif::hex(got, n));
}
__attribute__((noinline)) static bd::uint128_t bt(const char* msb_first) { return to_bt(le128(msb_first)); }

static void c37_known_answers(toolbox& tb)
{
    verif::monitor& M = mon("C37");
    verif::ctx_config("known_answers");

    // FIPS-197 C.1 through aes_le (little-endian in and out)
    {
        begin_op("aes_le FIPS-197 C.1");
        const bd::uint128_t out = bluetoe::nrf52_details::aes_le(bt("000102030405060708090a0b0c0d0e0f"), bt("00112233445566778899aabbccddeeff"));
        kat("kat_aes_le", "C37:aes_le:spec_sample", "FIPS-197 C.1", out.data(), 16, "69c4e0d86a7b0430d8cdb78070b4c55a");
    }
    {
        begin_op("c1 sample");
        const bd::uint128_t out = tb.c1(bt("00000000000000000000000000000000"), bt("5783D52156AD6F0E6388274EC6702EE0"),
                                        bt("05000800000302070710000001010001"), bt("00000000A1A2A3A4A5A6B1B2B3B4B5B6"));
        kat("kat_c1", "C37:c1:spec_sample", "Vol 3 Part H 2.2.3 sample", out.data(), 16, "1e1e3fef878988ead2a74dc5bef13b86");
    }
    {
        begin_op("s1 sample");
        const bd::uint128_t out = tb.s1(bt("00000000000000000000000000000000"), bt("000F0E0D0C0B0A091122334455667788"), bt("010203040506070899AABBCCDDEEFF00"));
        kat("kat_s1", "C37:s1:spec_sample", "Vol 3 Part H 2.2.4 sample", out.data(), 16, "9a1fe1f0e8b0f49b5b4216ae796da062");
    }
    const std::vector<std::uint8_t> U = le("20b003d2 f297be2c 5e2c83a7 e9f9a5b9 eff49111 acf4fddb cc030148 0e359de6");
    const std::vector<std::uint8_t> V = le("55188b3d 32f6bb9a 900afcfb eed4e72a 59cb9ac2 f19d7cfb 6b4fdd49 f47fc5fd");
    const bd::uint128_t X = bt("d5cb8454 d177733e ffffb2ec 712baeab"), Y = bt("a6e8e7cc 25a75f6e 216583f7 ff3dc4cf");
    verif::exact_buffer ub(U.data(), 32), vb(V.data(), 32);
    {
        begin_op("f4 sample");
        const bd::uint128_t out = tb.f4(ub.data(), vb.data(), X, 0x00);
        kat("kat_f4", "C37:f4:spec_sample", "Vol 3 Part H Appendix D.2", out.data(), 16, "f2c916f107a9bd1cf1eda1bea974872d");
    }
    {
        begin_op("g2 sample");
        const std::uint32_t out = tb.g2(ub.data(), vb.data(), X, Y);
        std::uint8_t ob[4]; for (int j = 0; j < 4; ++j) ob[j] = static_cast<std::uint8_t>(out >> (8 * j));
        kat("kat_g2", "C37:g2:spec_sample", "Vol 3 Part H Appendix D.5", ob, 4, "2f9ed5ba");
    }
    const std::vector<std::uint8_t> W = le("ec0234a3 57c8ad05 341010a6 0a397d9b 99796b13 b4f866f1 868d34f3 73bfa698");
    const std::vector<std::uint8_t> a1 = le("56123737bfce"), a2 = le("a713702dcfc1");
    const ll::device_address A1(a1.data(), false), A2(a2.data(), false);
    bd::ecdh_shared_secret_t dh; std::copy(W.begin(), W.end(), dh.begin());
    {
        begin_op("f5 sample");
        const std::pair<bd::uint128_t, bd::uint128_t> out = tb.f5(dh, X, Y, A1, A2);
        kat("kat_f5", "C37:f5:spec_sample_mackey", "Vol 3 Part H Appendix D.3 MacKey", out.first.data(), 16, "2965f176a1084a02fd3f6a20ce636e20");
        kat("kat_f5", "C37:f5:spec_sample_ltk", "Vol 3 Part H Appendix D.3 LTK", out.second.data(), 16, "6986791169d7cd23980522b594750a38");
    }
    {
        begin_op("f6 sample");
        const bd::io_capabilities_t io = {{ 0x02, 0x01, 0x01 }};
        const bd::uint128_t out = tb.f6(bt("2965f176 a1084a02 fd3f6a20 ce636e20"), X, Y, bt("12a3343b b453bb54 08da42d2 0c2d0fc8"), io, A1, A2);
        kat("kat_f6", "C37:f6:spec_sample", "Vol 3 Part H Appendix D.4", out.data(), 16, "e3c473989cd0e8c5d26c0b09da958f61");
    }
    // P-256 sample data (Vol 2 Part G 7.1.2.1 = debug keys, 7.1.2.2): private A, private B, public A x/y, public B x/y, DHKey
    static const char* sets[2][7] = {
        { "3f49f6d4 a3c55f38 74c9b3e3 d2103f50 4aff607b eb40b799 5899b8a6 cd3c1abd", "55188b3d 32f6bb9a 900afcfb eed4e72a 59cb9ac2 f19d7cfb 6b4fdd49 f47fc5fd",
          "20b003d2 f297be2c 5e2c83a7 e9f9a5b9 eff49111 acf4fddb cc030148 0e359de6", "dc809c49 652aeb6d 63329abf 5a52155c 766345c2 8fed3024 741c8ed0 1589d28b",
          "1ea1f0f0 1faf1d96 09592284 f19e4c00 47b58afd 8615a69f 559077b2 2faaa190", "4c55f33e 429dad37 7356703a 9ab85160 472d1130 e28e3676 5f89aff9 15b1214a",
          "ec0234a357c8ad05341010a60a397d9b99796b13b4f866f1868d34f373bfa698" },
        { "06a51669 3c9aa31a 6084545d 0c5db641 b48572b9 7203ddff b7ac73f7 d0457663", "529aa067 0d72cd64 97502ed4 73502b03 7e8803b5 c60829a5 a3caa219 505530ba",
          "2c31a47b 5779809e f44cb5ea af5c3e43 d5f8faad 4a8794cb 987e9b03 745c78dd", "91951218 3898dfbe cd52e240 8e43871f d0211091 17bd3ed4 eaf84377 43715d4f",
          "f465e43f f23d3f1b 9dc7dfc0 4da87581 84dbc966 204796ec cf0d6cf5 e16500cc", "0201d048 bcbbd899 eeefc424 164e33c2 01c2b010 ca6b4d43 a8a155ca d8ecb279",
          "ab85843a2f6d883f62e5684b38e307335fe6e1945ecd19604105c6f23221eb69" },
    };
    for (int s = 0; s < 2; ++s) {
        for (int side = 0; side < 2; ++side) {
            const std::vector<std::uint8_t> priv = le(sets[s][side]);
            std::vector<std::uint8_t> pub = le(sets[s][side ? 2 : 4]);
            const std::vector<std::uint8_t> py = le(sets[s][side ? 3 : 5]);
            pub.insert(pub.end(), py.begin(), py.end());
            verif::exact_buffer privb(priv.data(), 32), pubb(pub.data(), 64);
            begin_op("is_valid_public_key sample");
            M.eval(); cls37("kat_pubkey");
            if (tb.is_valid_public_key(pubb.data())) cls37("pubkey_valid_accepted"); else M.count("pubkey_valid_rejected");
            begin_op("p256 sample");
            const bd::ecdh_shared_secret_t got = tb.p256(privb.data(), pubb.data());
            kat("kat_p256", "C37:p256:spec_sample", s ? "Vol 2 Part G 7.1.2.2 DHKey" : "Vol 2 Part G 7.1.2.1 DHKey", got.data(), 32, sets[s][6]);
        }
    }
    if (g_emit_kat_sample) M.sample_json("{\"known_answers\":\"FIPS-197 C.1 via aes_le; c1, s1 (Vol 3 Part H 2.2.3/2.2.4); f4, f5, f6, g2 (Appendix D.2-D.5); P-256 data sets 1 and 2 (Vol 2 Part G 7.1.2) both directions\"}");
}

// ------------------------------------------------------------------------------------------ C37: differential
static std::uint64_t case_hash(const char* fn, int c0, int c1, int c2, unsigned extra, bool match)
{
    std::uint64_t h = verif::hstr(fn);
    h = verif::mix(h, static_cast<std::uint64_t>(c0)); h = verif::mix(h, static_cast<std::uint64_t>(c1));
    h = verif::mix(h, static_cast<std::uint64_t>(c2)); h = verif::mix(h, extra); h = verif::mix(h, match);
    return h;
}

static void c37_differential(toolbox& tb, verif::prng& r, unsigned long long ops)
{
    verif::monitor& M = mon("C37");
    verif::ctx_config("differential");
    for (unsigned long long i = 0; i < ops; ++i) {
        // ---- aes_le
        {
            const int ck = pick_class(r), cd = pick_class(r);
            const u128 k = gen128(r, ck), d = gen128(r, cd);
            begin_op("aes_le");
            const u128 got = to_ref(bluetoe::nrf52_details::aes_le(to_bt(k), to_bt(d)));
            const u128 want = refimpl::aes128_le(k, d);
            M.eval(); cls37("aes_le"); keycls37(ck);
            M.nontrivial(case_hash("aes_le", ck, cd, 0, 0, got == want));
            if (got != want) { const field f[] = { { "key", k.data(), 16 }, { "data", d.data(), 16 }, { "expected", want.data(), 16 }, { "got", got.data(), 16 } }; fail("C37:aes_le:differential", f, 4); }
        }
        // ---- c1
        {
            const int ck = pick_class(r), cr = pick_class(r), cp = pick_class(r);
            const u128 k = gen128(r, ck), rr = gen128(r, cr), p1 = gen128(r, cp), p2 = gen128(r, pick_class(r));
            begin_op("c1");
            const u128 got = to_ref(tb.c1(to_bt(k), to_bt(rr), to_bt(p1), to_bt(p2)));
            const u128 want = refimpl::c1(k, rr, p1, p2);
            M.eval(); cls37("c1"); keycls37(ck);
            M.nontrivial(case_hash("c1", ck, cr, cp, 0, got == want));
            if (got != want) { const field f[] = { { "k", k.data(), 16 }, { "r", rr.data(), 16 }, { "p1", p1.data(), 16 }, { "p2", p2.data(), 16 }, { "expected", want.data(), 16 }, { "got", got.data(), 16 } }; fail("C37:c1:differential", f, 6); }
        }
        // ---- c1 with p1/p2 assembled from PDUs and addresses by the reference (2.2.3 layouts)
        {
            const unsigned t = r.below(4);
            const addr_pair ap = gen_addrs(r, t);
            std::uint8_t preq[7], pres[7];
            for (int j = 0; j < 7; ++j) { preq[j] = r.byte(); pres[j] = r.byte(); }
            preq[0] = 0x01; pres[0] = 0x02;
            const int ck = pick_class(r);
            const u128 k = gen128(r, ck), rr = gen128(r, V_RANDOM);
            const u128 p1 = refimpl::c1_p1(preq, pres, ap.a_random, ap.b_random), p2 = refimpl::c1_p2(ap.a, ap.b);
            begin_op("c1 (pdu)");
            const u128 got = to_ref(tb.c1(to_bt(k), to_bt(rr), to_bt(p1), to_bt(p2)));
            const u128 want = refimpl::c1(k, rr, preq, pres, refimpl::make_address(ap.a_random, ap.a), refimpl::make_address(ap.b_random, ap.b));
            M.eval(); cls37("c1_pdu"); cls37(tname(t));
            M.nontrivial(case_hash("c1_pdu", ck, 0, 0, t, got == want));
            if (got != want) { const field f[] = { { "k", k.data(), 16 }, { "r", rr.data(), 16 }, { "p1", p1.data(), 16 }, { "p2", p2.data(), 16 }, { "expected", want.data(), 16 }, { "got", got.data(), 16 } }; fail("C37:c1:differential", f, 6); }
        }
        // ---- s1
        {
            const int ck = pick_class(r), c1c = pick_class(r), c2c = pick_class(r);
            const u128 k = gen128(r, ck), r1 = gen128(r, c1c), r2 = gen128(r, c2c);
            begin_op("s1");
            const u128 got = to_ref(tb.s1(to_bt(k), to_bt(r1), to_bt(r2)));
            const u128 want = refimpl::s1(k, r1, r2);
            M.eval(); cls37("s1"); keycls37(ck);
            M.nontrivial(case_hash("s1", ck, c1c, c2c, 0, got == want));
            if (got != want) { const field f[] = { { "k", k.data(), 16 }, { "r1(srand)", r1.data(), 16 }, { "r2(mrand)", r2.data(), 16 }, { "expected", want.data(), 16 }, { "got", got.data(), 16 } }; fail("C37:s1:differential", f, 5); }
        }
        // ---- f4 / g2 share U, V
        {
            const int cu = pick_class(r), cv = pick_class(r), cx = pick_class(r), cy = pick_class(r);
            verif::exact_buffer u(32), v(32);
            fill(r, cu, u.data(), 32); fill(r, cv, v.data(), 32);
            const u128 x = gen128(r, cx), y = gen128(r, cy);
            const std::uint8_t z = r.chance(1, 3) ? 0x00 : (r.chance(1, 2) ? static_cast<std::uint8_t>(0x80 | r.below(2)) : r.byte());
            begin_op("f4");
            const u128 got = to_ref(tb.f4(u.data(), v.data(), to_bt(x), z));
            const u128 want = refimpl::f4(u.data(), v.data(), x, z);
            M.eval(); cls37("f4"); keycls37(cx);
            M.nontrivial(case_hash("f4", cu, cv, cx, z == 0 ? 0 : (z >= 0x80 ? 1 : 2), got == want));
            if (got != want) { const field f[] = { { "u", u.data(), 32 }, { "v", v.data(), 32 }, { "x", x.data(), 16 }, { "z", &z, 1 }, { "expected", want.data(), 16 }, { "got", got.data(), 16 } }; fail("C37:f4:differential", f, 6); }

            begin_op("g2");
            const std::uint32_t g = tb.g2(u.data(), v.data(), to_bt(x), to_bt(y));
            const std::uint32_t gw = refimpl::g2(u.data(), v.data(), x, y);
            M.eval(); cls37("g2");
            M.nontrivial(case_hash("g2", cu, cx, cy, 0, g == gw));
            if (g != gw) {
                std::uint8_t gb[4], wb[4];
                for (int j = 0; j < 4; ++j) { gb[j] = static_cast<std::uint8_t>(g >> (8 * j)); wb[j] = static_cast<std::uint8_t>(gw >> (8 * j)); }
                const field f[] = { { "u", u.data(), 32 }, { "v", v.data(), 32 }, { "x", x.data(), 16 }, { "y", y.data(), 16 }, { "expected", wb, 4 }, { "got", gb, 4 } }; fail("C37:g2:differential", f, 6);
            }
        }
        // ---- f5
        {
            const unsigned t = r.below(4);
            const addr_pair ap = gen_addrs(r, t);
            const int cw = pick_class(r), c1c = pick_class(r), c2c = pick_class(r);
            bd::ecdh_shared_secret_t w; fill(r, cw, w.data(), 32);
            const u128 n1 = gen128(r, c1c), n2 = gen128(r, c2c);
            const ll::device_address A1(ap.a, ap.a_random), A2(ap.b, ap.b_random);
            begin_op("f5");
            const std::pair<bd::uint128_t, bd::uint128_t> got = tb.f5(w, to_bt(n1), to_bt(n2), A1, A2);
            const std::pair<u128, u128> want = refimpl::f5(w.data(), n1, n2, refimpl::make_address(ap.a_random, ap.a), refimpl::make_address(ap.b_random, ap.b));
            const bool ok1 = to_ref(got.first) == want.first, ok2 = to_ref(got.second) == want.second;
            M.eval(2); cls37("f5"); cls37(tname(t));
            M.nontrivial(case_hash("f5", cw, c1c, c2c, t, ok1 && ok2));
            if (!ok1 || !ok2) {
                const field f[] = { { "dhkey", w.data(), 32 }, { "n1", n1.data(), 16 }, { "n2", n2.data(), 16 }, { ap.a_random ? "a1 random" : "a1 public", ap.a, 6 }, { ap.b_random ? "a2 random" : "a2 public", ap.b, 6 },
                                    { "expected MacKey", want.first.data(), 16 }, { "got MacKey", got.first.data(), 16 }, { "expected LTK", want.second.data(), 16 }, { "got LTK", got.second.data(), 16 } };
                if (!ok1) fail("C37:f5:differential_mackey", f, 9);
                if (!ok2) fail("C37:f5:differential_ltk", f, 9);
            }
        }
        // ---- f6
        {
            const unsigned t = r.below(4);
            const addr_pair ap = gen_addrs(r, t);
            const int cw = pick_class(r), c1c = pick_class(r), cr = pick_class(r);
            const u128 w = gen128(r, cw), n1 = gen128(r, c1c), n2 = gen128(r, pick_class(r)), rr = gen128(r, cr);
            bd::io_capabilities_t io;
            const unsigned ioclass = r.below(3);
            if (ioclass == 0) { io[0] = static_cast<std::uint8_t>(r.below(5)); io[1] = static_cast<std::uint8_t>(r.below(2)); io[2] = static_cast<std::uint8_t>(r.below(64) & 0x3d); }   // legal triples
            else if (ioclass == 1) { io[0] = r.byte(); io[1] = r.byte(); io[2] = r.byte(); }
            else { io[0] = io[1] = io[2] = r.chance(1, 2) ? 0x00 : 0xff; }
            const ll::device_address A1(ap.a, ap.a_random), A2(ap.b, ap.b_random);
            begin_op("f6");
            const u128 got = to_ref(tb.f6(to_bt(w), to_bt(n1), to_bt(n2), to_bt(rr), io, A1, A2));
            const u128 want = refimpl::f6(w, n1, n2, rr, io.data(), refimpl::make_address(ap.a_random, ap.a), refimpl::make_address(ap.b_random, ap.b));
            M.eval(); cls37("f6"); cls37(tname(t)); cls37(ioclass == 0 ? "iocap_legal_triple" : (ioclass == 1 ? "iocap_random" : "iocap_extreme"));
            M.nontrivial(case_hash("f6", cw, c1c, cr, t * 4 + ioclass, got == want));
            if (got != want) {
                const field f[] = { { "w", w.data(), 16 }, { "n1", n1.data(), 16 }, { "n2", n2.data(), 16 }, { "r", rr.data(), 16 }, { "iocap", io.data(), 3 }, { ap.a_random ? "a1 random" : "a1 public", ap.a, 6 },
                                    { ap.b_random ? "a2 random" : "a2 public", ap.b, 6 }, { "expected", want.data(), 16 }, { "got", got.data(), 16 } };
                fail("C37:f6:differential", f, 9);
            }
        }
    }
    M.count("emulated_ecb_blocks", nrf_stub::ecb().blocks);
}

// ------------------------------------------------------------------------------------------ C37: public keys, DH
enum { PK_MULTIPLE_OF_G, PK_LIFT_RANDOM_X, PK_SPECIAL_VALID, PK_NEGATED, PK_BITFLIP_X, PK_BITFLIP_Y, PK_X_PLUS_P, PK_NEG_Y_PLUS_1,
       PK_ZERO_COORD, PK_EXTREME, PK_RANDOM, PK_SWAPPED, PK_BIG_ENDIAN, PK_X_PLUS_1, PK_X_BYTES_REVERSED, PK_Y_BYTES_REVERSED, PK_KINDS };
static const char* pkname(int k) {
    static const char* n[] = { "pk_multiple_of_g", "pk_lift_random_x", "pk_special_valid", "pk_negated", "pk_bitflip_x", "pk_bitflip_y", "pk_x_plus_p", "pk_neg_y_plus_1",
                               "pk_zero_coordinate", "pk_extreme_value", "pk_random_bytes", "pk_swapped_xy", "pk_big_endian_encoding", "pk_x_plus_1",
                               "pk_x_bytes_reversed", "pk_y_bytes_reversed" };
    return n[k];
}

static refimpl::bn256 random_scalar(verif::prng& r)
{
    for (;;) {
        std::uint8_t b[32]; for (int i = 0; i < 32; ++i) b[i] = r.byte();
        const refimpl::bn256 k = refimpl::bn_from_le(b);
        if (refimpl::p256_valid_private(k)) return k;
    }
}

static void valid_point(verif::prng& r, int how, refimpl::bn256& x, refimpl::bn256& y)
{
    using namespace refimpl;
    if (how == PK_LIFT_RANDOM_X) {
        for (;;) {
            std::uint8_t b[32]; for (int i = 0; i < 32; ++i) b[i] = r.byte();
            if (r.chance(1, 4)) std::memset(b + 4, 0, 28);         // small abscissa
            x = bn_from_le(b);
            if (r.chance(1, 8)) bn_sub(x, p256_p(), bn_small(1 + static_cast<std::uint32_t>(r.next() >> 40)));   // just below p
            if (p256_lift_x(x, r.chance(1, 2), y)) return;
        }
    }
    if (how == PK_SPECIAL_VALID) {
        const unsigned s = r.below(5);
        if (s == 0) { const p256_point g = p256_generator(); x = g.x; y = g.y; return; }
        if (s == 1) { x = bn_zero(); p256_lift_x(x, r.chance(1, 2), y); return; }             // x = 0 is on the curve (y^2 = b)
        if (s == 2) { x = bn_small(5); p256_lift_x(x, r.chance(1, 2), y); return; }
        if (s == 3) { bn256 k; bn_sub(k, p256_n(), bn_small(1 + r.below(3))); const p256_point q = p256_mult(k, p256_generator()); x = q.x; y = q.y; return; }
        const p256_point q = p256_mult(bn_small(1 + r.below(16)), p256_generator()); x = q.x; y = q.y; return;
    }
    const p256_point q = p256_mult(random_scalar(r), p256_generator());
    x = q.x; y = q.y;
}

static void c37_public_keys(toolbox& tb, verif::prng& r, unsigned long long points)
{
    using namespace refimpl;
    verif::monitor& M = mon("C37");
    verif::ctx_config("public_keys");
    static const std::uint32_t small_x[] = { 0, 5, 6, 8, 9, 11 };      // abscissae with a point; x + p still fits in 256 bits
    for (unsigned long long i = 0; i < points; ++i) {
        const int kind = static_cast<int>(i % PK_KINDS);
        bn256 x, y;
        std::uint8_t pk[64];
        bool raw = false;
        switch (kind) {
        case PK_MULTIPLE_OF_G: case PK_LIFT_RANDOM_X: case PK_SPECIAL_VALID: valid_point(r, kind, x, y); break;
        case PK_NEGATED: { valid_point(r, PK_MULTIPLE_OF_G, x, y); bn256 t; bn_sub(t, p256_p(), y); y = t; break; }
        case PK_BITFLIP_X: { valid_point(r, r.chance(1, 2) ? PK_MULTIPLE_OF_G : PK_LIFT_RANDOM_X, x, y); const unsigned b = r.below(256); x.w[b / 32] ^= 1u << (b % 32); break; }
        case PK_BITFLIP_Y: { valid_point(r, PK_MULTIPLE_OF_G, x, y); const unsigned b = r.below(256); y.w[b / 32] ^= 1u << (b % 32); break; }
        case PK_X_PLUS_P: {
            x = bn_small(small_x[r.below(6)]);
            if (!p256_lift_x(x, r.chance(1, 2), y)) { x = bn_zero(); p256_lift_x(x, false, y); }
            bn256 t; bn_add(t, x, p256_p()); x = t; break;          // congruent to a valid abscissa, but >= p
        }
        case PK_NEG_Y_PLUS_1: { valid_point(r, PK_MULTIPLE_OF_G, x, y); bn256 t; bn_sub(t, p256_p(), y); bn_add(y, t, bn_small(1)); break; }
        case PK_ZERO_COORD: {
            const unsigned s = r.below(3);
            valid_point(r, PK_MULTIPLE_OF_G, x, y);
            if (s == 0) { x = bn_zero(); y = bn_zero(); } else if (s == 1) x = bn_zero(); else y = bn_zero();
            break;
        }
        case PK_EXTREME: {
            const unsigned s = r.below(5);
            valid_point(r, PK_MULTIPLE_OF_G, x, y);
            bn256 ones; for (int j = 0; j < 8; ++j) ones.w[j] = 0xffffffffu;
            if (s == 0) { x = ones; y = ones; } else if (s == 1) x = p256_p(); else if (s == 2) y = p256_p();
            else if (s == 3) { x = p256_p(); p256_lift_x(bn_zero(), false, y); }      // (p, sqrt(b)) is congruent to the valid point (0, sqrt(b))
            else { bn_sub(x, p256_p(), bn_small(1)); }
            break;
        }
        case PK_RANDOM: raw = true; for (int j = 0; j < 64; ++j) pk[j] = r.byte(); break;
        case PK_SWAPPED: { valid_point(r, PK_MULTIPLE_OF_G, x, y); std::swap(x, y); break; }
        case PK_BIG_ENDIAN: { valid_point(r, PK_MULTIPLE_OF_G, x, y); raw = true; bn_to_be(x, pk); bn_to_be(y, pk + 32); break; }
        case PK_X_BYTES_REVERSED: { valid_point(r, PK_MULTIPLE_OF_G, x, y); raw = true; bn_to_be(x, pk); bn_to_le(y, pk + 32); break; }     // one coordinate in the wrong byte order
        case PK_Y_BYTES_REVERSED: { valid_point(r, PK_MULTIPLE_OF_G, x, y); raw = true; bn_to_le(x, pk); bn_to_be(y, pk + 32); break; }
        default: { valid_point(r, PK_MULTIPLE_OF_G, x, y); bn256 t; bn_add(t, x, bn_small(1)); x = t; break; }
        }
        if (!raw) { bn_to_le(x, pk); bn_to_le(y, pk + 32); }
        const bool valid = p256_valid_public_key_le(pk);

        verif::exact_buffer pkb(pk, 64);
        begin_op("is_valid_public_key");
        verif::ctx_op("is_valid_public_key", pk, 64);
        const bool accepted = tb.is_valid_public_key(pkb.data());
        M.eval(); cls37(pkname(kind));
        M.nontrivial(case_hash("is_valid_public_key", kind, valid, accepted, 0, valid == accepted));
        if (valid && accepted) cls37("pubkey_valid_accepted");
        if (!valid && !accepted) cls37("pubkey_invalid_rejected");
        if (valid && !accepted) M.count("pubkey_valid_rejected");      // not demanded by the property ("accepted only if valid")
        if (!valid && accepted)
            report(std::string("C37:is_valid_public_key:accepts_invalid:") + pkname(kind),
                   "public key (x little-endian || y little-endian) " + hx(pk, 64) + " is not a P-256 point (reference predicate: 0 <= x,y < p, y^2 = x^3 - 3x + b) but was accepted");

        // Diffie-Hellman on valid keys
        if (valid && accepted) {
            bn256 k;
            const unsigned s = r.below(8);
            if (s == 0) k = bn_small(1 + r.below(4));
            else if (s == 1) bn_sub(k, p256_n(), bn_small(1 + r.below(4)));
            else k = random_scalar(r);
            std::uint8_t priv[32], want[32];
            bn_to_le(k, priv);
            if (p256_dhkey_le(priv, pk, want)) {
                verif::exact_buffer privb(priv, 32);
                begin_op("p256");
                const bd::ecdh_shared_secret_t got = tb.p256(privb.data(), pkb.data());
                M.eval(); cls37("p256_dhkey"); cls37(s == 0 ? "p256_small_scalar" : (s == 1 ? "p256_scalar_near_n" : "p256_random_scalar"));
                const bool ok = std::equal(got.begin(), got.end(), want);
                M.nontrivial(case_hash("p256", kind, static_cast<int>(s > 1 ? 2 : s), 0, 0, ok));
                // micro-ecc's co-Z ladder cannot compute k*P for k in {1, n-1, n-2} (uECC_shared_secret returns 0, which the
                // tool box only asserts on).  Such a private key arises from generate_keys() with probability 3/n and is not
                // an input the property quantifies over: counted and sampled, not judged.
                bn256 nm1, nm2; bn_sub(nm1, p256_n(), bn_small(1)); bn_sub(nm2, p256_n(), bn_small(2));
                const bool exceptional = bn_cmp(k, bn_small(1)) == 0 || bn_cmp(k, nm1) == 0 || bn_cmp(k, nm2) == 0;
                if (!ok && exceptional) {
                    M.count("p256_wrong_dhkey_for_private_key_1_or_n-1_or_n-2");
                    M.sample("p256(private key " + hx(priv, 32) + " (little-endian), valid public key) returned " + hx(got.data(), 32) + " instead of " + hx(want, 32) + ": uECC_shared_secret fails for the scalars 1, n-1, n-2; not judged");
                }
                else if (!ok) {
                    // a peer chooses its public key: the abscissa 0 belongs to two valid points (0, +-sqrt(b))
                    const bool x_zero = bn_is_zero(bn_from_le(pk));
                    const field f[] = { { "private", priv, 32 }, { "peer public key (x || y)", pk, 64 }, { "expected DHKey", want, 32 }, { "got", got.data(), 32 } };
                    fail(x_zero ? "C37:p256:wrong_dhkey_for_valid_peer_key_with_x_0" : "C37:p256:differential", f, 4,
                         x_zero ? "; the key was accepted by is_valid_public_key (it is a valid point); uECC_shared_secret reports failure for it, which p256() only asserts on" : "");
                }
            }
        }
        // key generation from the RNG stream: the public key must belong to the private key
        if (kind == PK_MULTIPLE_OF_G) {
            // now and then the first 32 RNG bytes (little-endian private key candidate) are an unusable scalar:
            // 0, n, 2^256-1 (out of range) or 1, n-1, n-2 (micro-ecc cannot multiply by them); the generator must skip it
            if (r.chance(1, 3)) {
                bn256 cand; const unsigned c = r.below(6);
                if (c == 0) cand = bn_zero(); else if (c == 1) cand = p256_n(); else if (c == 2) { for (int j = 0; j < 8; ++j) cand.w[j] = 0xffffffffu; }
                else if (c == 3) cand = bn_small(1); else bn_sub(cand, p256_n(), bn_small(c - 3));
                std::vector<std::uint8_t> pre(32); bn_to_le(cand, pre.data());
                g_rng.set_prefix(pre);
                cls37("generate_keys_unusable_first_candidate");
            }
            begin_op("generate_keys");
            const std::pair<bd::ecdh_public_key_t, bd::ecdh_private_key_t> keys = tb.generate_keys();
            std::uint8_t want[64];
            M.eval(); cls37("generate_keys");
            const bool priv_ok = p256_public_key_le(keys.second.data(), want);
            const bool ok = priv_ok && std::equal(keys.first.begin(), keys.first.end(), want);
            M.nontrivial(case_hash("generate_keys", 0, 0, 0, keys.second[31] >> 6, ok));
            if (!priv_ok) report("C37:generate_keys:private_key_out_of_range", "private key (little-endian) " + hx(keys.second.data(), 32) + " is not in [1, n-1]; rng bytes " + verif::hex(g_rng.log));
            else if (!ok) report("C37:generate_keys:public_key_mismatch", "private (little-endian) " + hx(keys.second.data(), 32) + " expected public " + hx(want, 64) + " got " + hx(keys.first.data(), 64));
            // and must be acceptable to the validity check of a peer
            if (ok && !p256_valid_public_key_le(keys.first.data())) report("C37:generate_keys:invalid_public_key", hx(keys.first.data(), 64));
            g_rng.set_prefix(std::vector<std::uint8_t>());
        }
    }
}

// ------------------------------------------------------------------------------------------ C38
// Formatting a witness for each of millions of out-of-range values would dominate the run: after the first two per
// key (printed by verif::violation) occurrences are only counted.
struct counted_violation {
    const char*         key;
    unsigned long long  seen;
    unsigned long long* slot;
    bool first_two() {
        if (++seen <= 2) return true;
        verif::monitor& M = mon("C38");
        if (!slot) slot = &M.viol_count[key];          // exists: verif::violation created it
        ++M.violations; ++*slot;
        return false;
    }
};
static unsigned long long c38_in_range = 0;
static counted_violation v_range = { "C38:create_passkey:value_above_999999", 0, 0 };
static counted_violation v_pad = { "C38:create_passkey:temporary_key_not_zero_padded", 0, 0 };
static counted_violation v_runaway = { "C38:create_passkey:no_result_after_100000_rng_bytes", 0, 0 };

struct passkey_result {
    bool          produced;
    std::uint32_t value;
    bool          upper_zero;
    bd::uint128_t raw;
};

static passkey_result draw_passkey(toolbox& tb)
{
    passkey_result res; res.produced = false; res.value = 0; res.upper_zero = true;
    begin_op("create_passkey");
    try {
        res.raw = tb.create_passkey();
        res.produced = true;
    } catch (const runaway&) {
        // the busy-wait left the event register state behind; clean up for the next call
        NRF_RNG->EVENTS_VALRDY = 0;
        return res;
    }
    // the displayed number: io_capabilities.hpp, sm_pairing_numeric_output( read_32bit( key.data() ) );
    // the same array is the legacy pairing temporary key (TK = passkey, zero padded to 128 bit, Vol 3 Part H 2.3.5.3)
    res.value = static_cast<std::uint32_t>(res.raw[0]) | (static_cast<std::uint32_t>(res.raw[1]) << 8)
              | (static_cast<std::uint32_t>(res.raw[2]) << 16) | (static_cast<std::uint32_t>(res.raw[3]) << 24);
    for (int i = 4; i < 16; ++i) if (res.raw[i]) res.upper_zero = false;
    return res;
}

enum { S_PRNG, S_ALL_00, S_ALL_FF, S_COUNTER, S_ALTERNATING, S_MAX_SIX_DIGIT, S_BOUNDARY, S_EXHAUSTIVE, S_CLASSES };
static const char* sname(int c) {
    static const char* n[] = { "stream_prng", "stream_all_00_prefix", "stream_all_ff_prefix", "stream_counter_prefix", "stream_alternating_prefix",
                               "stream_max_six_digit_prefix", "stream_boundary_prefix", "stream_exhaustive_3_byte_prefixes" };
    return n[c];
}

static void check_passkey(const passkey_result& p, int stream_class)
{
    verif::monitor& M = mon("C38");
    M.eval();
    if (!p.produced) {
        if (v_runaway.first_two())
            verif::violation("C38", v_runaway.key, std::string("stream ") + sname(stream_class) + " first rng bytes " + verif::hex(g_rng.log), g_step);
        return;
    }
    // distinct non-trivial case: (stream class, value bucket of width 10000 / of width 2^20 above the range, padding ok)
    {
        static std::vector<bool> seen(S_CLASSES * 8192 * 2, false);
        const std::uint32_t bucket = p.value > 999999u ? 100u + (p.value >> 20) : p.value / 10000u;      // < 100 + 4096
        const std::size_t idx = (static_cast<std::size_t>(stream_class) * 8192 + bucket) * 2 + (p.upper_zero ? 1 : 0);
        if (!seen[idx]) { seen[idx] = true; M.nontrivial(verif::mix(verif::mix(verif::hstr(sname(stream_class)), bucket), p.upper_zero)); }
    }
    if (p.value > 999999u) {
        if (v_range.first_two())
            verif::violation("C38", v_range.key, std::string("stream ") + sname(stream_class) + " rng bytes " + verif::hex(g_rng.log) + " -> passkey array "
                             + verif::hex(p.raw.data(), 16) + " displayed value " + std::to_string(p.value) + " (sm_pairing_numeric_output reads the first 4 bytes little-endian)", g_step);
    } else ++c38_in_range;
    if (!p.upper_zero) {
        if (v_pad.first_two())
            verif::violation("C38", v_pad.key, std::string("stream ") + sname(stream_class) + " rng bytes " + verif::hex(g_rng.log) + " -> passkey array "
                             + verif::hex(p.raw.data(), 16) + ": bytes 4..15 must be zero (the array is used as TK, a 6 digit passkey zero-padded to 128 bit)", g_step);
    }
}

// chi-square statistic of `counts` against the uniform distribution
static double chi_square(const std::vector<unsigned long long>& counts, unsigned long long n)
{
    const double e = static_cast<double>(n) / static_cast<double>(counts.size());
    double s = 0;
    for (std::size_t i = 0; i < counts.size(); ++i) { const double d = static_cast<double>(counts[i]) - e; s += d * d / e; }
    return s;
}

static void c38_statistical(toolbox& tb, verif::prng& r, unsigned long long samples)
{
    verif::monitor& M = mon("C38");
    verif::ctx_config("prng_stream");
    g_rng.set_prefix(std::vector<std::uint8_t>());
    g_rng.tail.reseed(r.next());
    std::vector<unsigned long long> b10(10, 0), digit(10, 0), b1000(1000, 0);
    unsigned long long in_range = 0, produced = 0;
    std::uint32_t vmax = 0;
    for (unsigned long long i = 0; i < samples; ++i) {
        const passkey_result p = draw_passkey(tb);
        check_passkey(p, S_PRNG);
        if (!p.produced) continue;
        ++produced;
        if (p.value > vmax) vmax = p.value;
        if (p.value <= 999999u) { ++in_range; ++b10[p.value / 100000u]; ++digit[p.value % 10u]; ++b1000[p.value / 1000u]; }
    }
    M.cls(sname(S_PRNG), produced);
    M.count("prng_samples_in_range", in_range);
    // Uniformity is judged on the values inside 000000..999999 (values outside are range violations already).
    // Thresholds: P(chi2_9 > 110) = 1.5e-19, P(chi2_999 > 1500) = 8.5e-23 for a uniform generator.
    if (in_range >= 50000) {
        const double c10 = chi_square(b10, in_range), cd = chi_square(digit, in_range), c1000 = chi_square(b1000, in_range);
        M.eval(3); M.cls("chi_square_evaluated");
        char buf[400];
        std::snprintf(buf, sizeof buf, "{\"prng_stream_samples\":%llu,\"in_range\":%llu,\"max_value\":%u,\"chi2_10_buckets\":%.2f,\"chi2_last_digit\":%.2f,\"chi2_1000_buckets\":%.2f,\"thresholds\":[110,110,1500]}",
                      produced, in_range, vmax, c10, cd, c1000);
        M.sample_json(buf);
        if (c10 > 110.0) verif::violation("C38", "C38:uniformity:chi_square_10_buckets", std::string("over values in 000000..999999 of a seeded uniform byte stream: ") + buf, g_step);
        if (cd > 110.0) verif::violation("C38", "C38:uniformity:chi_square_last_digit", std::string("over values in 000000..999999 of a seeded uniform byte stream: ") + buf, g_step);
        if (c1000 > 1500.0) verif::violation("C38", "C38:uniformity:chi_square_1000_buckets", std::string("over values in 000000..999999 of a seeded uniform byte stream: ") + buf, g_step);
    } else M.count("chi_square_skipped_too_few_in_range");
}

static void c38_adversarial(toolbox& tb, verif::prng& r, unsigned long long cases)
{
    verif::monitor& M = mon("C38");
    verif::ctx_config("adversarial_prefix");
    for (unsigned long long i = 0; i < cases; ++i) {
        const unsigned kind = static_cast<unsigned>(i % 6);
        const unsigned len = 1 + r.below(64);
        std::vector<std::uint8_t> p(len);
        const std::uint8_t start = r.byte();
        for (unsigned j = 0; j < len; ++j) {
            switch (kind) {
            case 0: p[j] = 0x00; break;
            case 1: p[j] = 0xff; break;
            case 2: p[j] = static_cast<std::uint8_t>(start + j); break;
            case 3: p[j] = ((j + start) & 1) ? 0xff : 0x00; break;
            case 4: { static const std::uint8_t m[4] = { 0x3f, 0x42, 0x0f, 0x00 }; p[j] = m[j % 4]; break; }           // 999999 = 0x0F423F little-endian
            default: { static const std::uint8_t m[2][4] = { { 0x40, 0x42, 0x0f, 0x00 }, { 0xff, 0xff, 0x0f, 0x00 } }; p[j] = m[start & 1][j % 4]; break; }   // 1000000, 0xFFFFF
            }
        }
        g_rng.set_prefix(p);
        g_rng.tail.reseed(r.next());
        const passkey_result res = draw_passkey(tb);
        check_passkey(res, S_ALL_00 + static_cast<int>(kind));
        M.cls(sname(S_ALL_00 + static_cast<int>(kind)));
    }
    g_rng.set_prefix(std::vector<std::uint8_t>());
}

// Exact counting: run create_passkey() on every 3-byte RNG prefix (2^24), continuing with PRNG bytes when the
// implementation asks for more.  c[v] = number of prefixes after which v was returned having drawn <= 3 bytes,
// D = number of prefixes after which more than 3 bytes were drawn.  For a uniform result on 0..999999 and iid
// uniform RNG bytes, P(v) = 1e-6 must lie in [c[v], c[v] + D] / 2^24 for every v: a necessary condition that is
// exact (no statistics): max c[v] <= 2^24/1e6 = 16.78 <= min c[v] + D.
static unsigned long long c38_exact(toolbox& tb, verif::prng& r)
{
    verif::monitor& M = mon("C38");
    verif::ctx_config("all_3_byte_prefixes");
    std::vector<std::uint32_t> c(1000000, 0);
    unsigned long long deeper = 0, out_of_range = 0, leaves = 0;
    std::vector<std::uint8_t> p(3);
    g_rng.tail.reseed(r.next());
    for (std::uint32_t v = 0; v < (1u << 24); ++v) {
        p[0] = static_cast<std::uint8_t>(v); p[1] = static_cast<std::uint8_t>(v >> 8); p[2] = static_cast<std::uint8_t>(v >> 16);
        g_rng.set_prefix(p);
        const passkey_result res = draw_passkey(tb);
        check_passkey(res, S_EXHAUSTIVE);
        if (!res.produced) { ++deeper; continue; }
        if (g_rng.drawn > 3) { ++deeper; continue; }
        ++leaves;
        if (res.value > 999999u) ++out_of_range; else ++c[res.value];
    }
    g_rng.set_prefix(std::vector<std::uint8_t>());
    M.cls(sname(S_EXHAUSTIVE), 1u << 24);
    M.count("exact_prefixes_needing_more_than_3_bytes", deeper);
    M.count("exact_prefixes_out_of_range", out_of_range);
    std::uint32_t cmin = 0xffffffffu, cmax = 0, vmin = 0, vmax = 0;
    for (std::uint32_t v = 0; v < 1000000u; ++v) { if (c[v] < cmin) { cmin = c[v]; vmin = v; } if (c[v] > cmax) { cmax = c[v]; vmax = v; } }
    char buf[400];
    std::snprintf(buf, sizeof buf, "{\"all_3_byte_rng_prefixes\":16777216,\"returned_within_3_bytes\":%llu,\"drew_more\":%llu,\"out_of_range\":%llu,\"min_preimages\":%u,\"min_at\":%u,\"max_preimages\":%u,\"max_at\":%u}",
                  leaves, deeper, out_of_range, cmin, vmin, cmax, vmax);
    M.sample_json(buf);
    if (out_of_range) { M.count("exact_uniformity_not_judged_range_already_violated"); return deeper; }   // one defect, one key: the range violation is reported
    if (deeper == (1ull << 24)) { M.count("exact_3_byte_count_undecided_every_prefix_draws_more"); return deeper; }
    M.eval(); M.cls("exact_preimage_count_evaluated");
    // 2^24 / 1e6 = 16.777216
    if (cmax > 16u || static_cast<unsigned long long>(cmin) + deeper < 17ull)
        verif::violation("C38", "C38:uniformity:exact_preimage_count",
                         std::string("over all 2^24 three-byte RNG prefixes some value is returned more (or less) often than a uniform choice on 000000..999999 allows (16.78 +- the undecided prefixes): ") + buf, g_step);
    return deeper;
}

// The same count over all 2^32 four-byte prefixes, for generators that always draw a fourth byte (the three-byte
// count is then undecided).  2^32 calls: split over forked workers (each has its own copy of the emulated register
// file), tallies in shared memory.  Necessary condition: max c[v] <= 2^32/1e6 = 4294.97 <= min c[v] + D.
#include <sys/mman.h>
#include <sys/wait.h>
struct exact4_shared {
    unsigned long long leaves, deeper, out_of_range, not_padded;
    std::uint32_t first_out_of_range_prefix, first_out_of_range_value;
};
static void c38_exact4(toolbox& tb, verif::prng& r, unsigned workers)
{
    verif::monitor& M = mon("C38");
    verif::ctx_config("all_4_byte_prefixes");
    if (workers < 1) workers = 1;
    if (workers > 64) workers = 64;
    const std::size_t tally_bytes = 1000000 * sizeof(std::uint32_t);
    void* mem = mmap(0, workers * (tally_bytes + sizeof(exact4_shared)), PROT_READ | PROT_WRITE, MAP_SHARED | MAP_ANONYMOUS, -1, 0);
    if (mem == MAP_FAILED) { M.count("exact4_mmap_failed"); return; }
    std::uint32_t* tallies = static_cast<std::uint32_t*>(mem);
    exact4_shared* shared = reinterpret_cast<exact4_shared*>(static_cast<char*>(mem) + workers * tally_bytes);
    const std::uint64_t tail_seed = r.next();
    std::fflush(stdout);
    std::vector<pid_t> pids;
    for (unsigned w = 0; w < workers; ++w) {
        const pid_t pid = fork();
        if (pid < 0) { M.count("exact4_fork_failed"); break; }
        if (pid == 0) {
            std::uint32_t* c = tallies + static_cast<std::size_t>(w) * 1000000;
            exact4_shared& sh = shared[w];
            std::vector<std::uint8_t> p(4);
            g_rng.tail.reseed(tail_seed + w);
            for (unsigned b3 = w; b3 < 256; b3 += workers) {
                for (std::uint32_t low = 0; low < (1u << 24); ++low) {
                    p[0] = static_cast<std::uint8_t>(low); p[1] = static_cast<std::uint8_t>(low >> 8); p[2] = static_cast<std::uint8_t>(low >> 16); p[3] = static_cast<std::uint8_t>(b3);
                    g_rng.set_prefix(p);
                    const passkey_result res = draw_passkey(tb);
                    if (!res.produced || g_rng.drawn > 4) { ++sh.deeper; continue; }
                    ++sh.leaves;
                    if (!res.upper_zero) ++sh.not_padded;
                    if (res.value > 999999u) { if (!sh.out_of_range++) { sh.first_out_of_range_prefix = low | (static_cast<std::uint32_t>(b3) << 24); sh.first_out_of_range_value = res.value; } }
                    else ++c[res.value];
                }
            }
            _exit(0);
        }
        pids.push_back(pid);
    }
    bool ok = pids.size() == workers;
    for (std::size_t i = 0; i < pids.size(); ++i) { int st = 0; if (waitpid(pids[i], &st, 0) < 0 || !WIFEXITED(st) || WEXITSTATUS(st) != 0) ok = false; }
    if (!ok) { M.count("exact4_worker_failed"); munmap(mem, workers * (tally_bytes + sizeof(exact4_shared))); return; }
    exact4_shared total = { 0, 0, 0, 0, 0, 0 };
    for (unsigned w = 0; w < workers; ++w) {
        total.leaves += shared[w].leaves; total.deeper += shared[w].deeper; total.not_padded += shared[w].not_padded;
        if (shared[w].out_of_range && !total.out_of_range) { total.first_out_of_range_prefix = shared[w].first_out_of_range_prefix; total.first_out_of_range_value = shared[w].first_out_of_range_value; }
        total.out_of_range += shared[w].out_of_range;
    }
    std::uint64_t cmin = ~0ull, cmax = 0; std::uint32_t vmin = 0, vmax = 0;
    for (std::uint32_t v = 0; v < 1000000u; ++v) {
        std::uint64_t c = 0;
        for (unsigned w = 0; w < workers; ++w) c += tallies[static_cast<std::size_t>(w) * 1000000 + v];
        if (c < cmin) { cmin = c; vmin = v; }
        if (c > cmax) { cmax = c; vmax = v; }
    }
    munmap(mem, workers * (tally_bytes + sizeof(exact4_shared)));
    M.eval(total.leaves + total.deeper);
    M.cls("stream_exhaustive_4_byte_prefixes", total.leaves + total.deeper);
    char buf[500];
    std::snprintf(buf, sizeof buf, "{\"all_4_byte_rng_prefixes\":4294967296,\"returned_within_4_bytes\":%llu,\"drew_more\":%llu,\"out_of_range\":%llu,\"not_zero_padded\":%llu,\"min_preimages\":%llu,\"min_at\":%u,\"max_preimages\":%llu,\"max_at\":%u}",
                  total.leaves, total.deeper, total.out_of_range, total.not_padded, static_cast<unsigned long long>(cmin), vmin, static_cast<unsigned long long>(cmax), vmax);
    M.sample_json(buf);
    if (total.out_of_range) {
        char w[200];
        std::snprintf(w, sizeof w, "four-byte rng prefix (little-endian number) 0x%08x -> displayed value %u; ", total.first_out_of_range_prefix, total.first_out_of_range_value);
        verif::violation("C38", v_range.key, std::string(w) + buf, g_step);
        return;
    }
    if (total.not_padded) verif::violation("C38", v_pad.key, buf, g_step);
    M.cls("exact_preimage_count_evaluated");
    if (cmax > 4294ull || cmin + total.deeper < 4295ull)
        verif::violation("C38", "C38:uniformity:exact_preimage_count",
                         std::string("over all 2^32 four-byte RNG prefixes some value is returned more (or less) often than a uniform choice on 000000..999999 allows (4294.97 +- the undecided prefixes): ") + buf, g_step);
}

int main(int argc, char** argv)
{
    verif::args a(argc, argv);
    verif::install_crash_handler();
    const std::string mode = a.str("mode", "all");
    const unsigned long long seed = a.num("seed", 1);
    verif::prng r(seed);
    verif::run_config() = "toolbox mode=" + mode + " seed=" + std::to_string(seed);

    nrf_stub::rng().set_stream(&rng_stream::next, &g_rng);
    g_rng.tail.reseed(seed ^ 0x5eedull);
    toolbox tb;
    g_emit_kat_sample = (seed % 1000) == 0;

    if (mode == "c37" || mode == "all") {
        verif::ctx_prop("C37");
        // installs the tool box's RNG in uECC, so that no /dev/urandom byte enters the run (uECC blinds with its RNG)
        begin_op("generate_keys (install rng)");
        tb.generate_keys();
        c37_known_answers(tb);
        c37_differential(tb, r, a.num("ops", 2000));
        c37_public_keys(tb, r, a.num("points", 200));
        // the RNG backed helpers have no specified value; they are run for the sanitizers and their use of the RNG is counted
        {
            verif::ctx_config("rng_helpers");
            const unsigned long long before = nrf_stub::rng().bytes_drawn;
            for (int i = 0; i < 50; ++i) {
                begin_op("create_srand"); const bd::uint128_t a1 = tb.create_srand();
                begin_op("select_random_nonce"); const bd::uint128_t a2 = tb.select_random_nonce();
                begin_op("create_long_term_key"); const bd::longterm_key_t k = tb.create_long_term_key();
                if (a1 != a2 && k.longterm_key != a1) mon("C37").count("rng_helper_calls", 3);
            }
            mon("C37").count("rng_helper_bytes_drawn", nrf_stub::rng().bytes_drawn - before);
        }
        mon("C37").count("emulated_rng_bytes", nrf_stub::rng().bytes_drawn);
    }
    if (mode == "c38" || mode == "all") {
        verif::ctx_prop("C38");
        c38_adversarial(tb, r, a.num("adversarial", 6000));
        c38_statistical(tb, r, a.num("passkeys", 200000));
        if (a.num("exact", 0)) {
            const unsigned long long deeper = c38_exact(tb, r);
            // a generator that always wants a fourth byte: decide on all four-byte prefixes (2^32 calls, thorough tier only)
            if (deeper == (1ull << 24) && a.num("exact4", 0)) c38_exact4(tb, r, static_cast<unsigned>(a.num("workers", 16)));
        }
        mon("C38").count("range_violations", v_range.seen);
        mon("C38").cls("passkey_in_range", c38_in_range);
    }
    verif::finish();
    return 0;
}
