// C37, session key clause: the unmodified nrf52.cpp is compiled against the register stub;
// radio_hardware_with_crypto_support::setup_encryption(LTK, SKDm, IVm) draws SKDs/IVs from the emulated RNG, derives
// the session key through the emulated ECB and leaves key and IV in the CCM configuration block that NRF_CCM->CNFPTR
// points to.  Oracle (Core Vol 6 Part B 5.1.3.1, sample data Vol 6 Part C 1; refimpl/ll_crypto.hpp):
//     SK = e(LTK, SKDs || SKDm)        IV = IVs || IVm        with the SKDs / IVs the function RETURNS (they go into LL_ENC_RSP)
// nRF52 CCM data structure (product specification, CCM chapter): byte 0..15 AES key most significant octet first (same
// order as the ECB key), 16..23 packet counter, 24 direction, 25..32 IV with octet 0 first.
//
// --seed=N --ops=N
#include <bluetoe/nrf52.hpp>
#include <nrf.h>

#include "common/verif.hpp"
#include "ll_crypto.hpp"

#include <string>
#include <vector>

using verif::mon;
namespace bd = bluetoe::details;
typedef bluetoe::nrf52_details::radio_hardware_with_crypto_support hw;
using refimpl::u128;

struct rng_stream {
    verif::prng tail;
    std::vector<std::uint8_t> prefix;
    std::size_t pos;
    std::vector<std::uint8_t> log;
    rng_stream() : tail(1), pos(0) {}
    static std::uint8_t next(void* ctx) {
        rng_stream& s = *static_cast<rng_stream*>(ctx);
        const std::uint8_t b = s.pos < s.prefix.size() ? s.prefix[s.pos++] : s.tail.byte();
        if (s.log.size() < 16) s.log.push_back(b);
        return b;
    }
};
static rng_stream g_rng;
static unsigned long long g_step = 0;

static void isr(void*) {}

enum { V_RANDOM, V_ZERO, V_ONES, V_ONE_BIT, V_CLASSES };
static const char* vname(int c) { static const char* n[] = { "ltk_random", "ltk_zero", "ltk_ones", "ltk_one_bit" }; return n[c]; }
static void fill(verif::prng& r, int cls, std::uint8_t* p, std::size_t n)
{
    switch (cls) {
    case V_ZERO: std::memset(p, 0, n); break;
    case V_ONES: std::memset(p, 0xff, n); break;
    case V_ONE_BIT: { std::memset(p, 0, n); const unsigned b = r.below(static_cast<std::uint32_t>(8 * n)); p[b / 8] = static_cast<std::uint8_t>(1u << (b % 8)); break; }
    default: for (std::size_t i = 0; i < n; ++i) p[i] = r.byte();
    }
}
static std::uint64_t le64(const std::uint8_t* p) { std::uint64_t v = 0; for (int i = 7; i >= 0; --i) v = (v << 8) | p[i]; return v; }

// one call + comparison; returns the returned (skds, ivs)
static std::pair<std::uint64_t, std::uint32_t> check(const u128& ltk, std::uint64_t skdm, std::uint32_t ivm, const char* cls, std::uint64_t hash_extra)
{
    verif::monitor& M = mon("C37");
    ++g_step;
    verif::ctx_step(g_step);
    g_rng.log.clear();
    bd::uint128_t key; std::copy(ltk.begin(), ltk.end(), key.begin());
    const std::pair<std::uint64_t, std::uint32_t> ret = hw::setup_encryption(key, skdm, ivm);

    const std::uint8_t* ccm = reinterpret_cast<const std::uint8_t*>(static_cast<std::uintptr_t>(NRF_CCM->CNFPTR));
    const u128 sk_le = refimpl::ll_session_key(ltk, skdm, ret.first);
    const u128 sk_msb = refimpl::reversed(sk_le);
    const refimpl::u64bytes iv = refimpl::ll_iv(ivm, ret.second);
    const bool key_ok = std::memcmp(ccm, sk_msb.data(), 16) == 0;
    const bool iv_ok = std::memcmp(ccm + 25, iv.data(), 8) == 0;
    M.eval(2); M.cls(cls);
    M.nontrivial(verif::mix(verif::mix(verif::hstr(cls), hash_extra), key_ok * 2 + iv_ok));
    char in[300];
    std::snprintf(in, sizeof in, "LTK (little-endian) %s SKDm 0x%016llx IVm 0x%08x returned SKDs 0x%016llx IVs 0x%08x rng bytes %s; CCM block %s", verif::hex(ltk.data(), 16).c_str(),
                  static_cast<unsigned long long>(skdm), ivm, static_cast<unsigned long long>(ret.first), ret.second, verif::hex(g_rng.log).c_str(), verif::hex(ccm, 33).c_str());
    if (!key_ok) verif::violation("C37", "C37:session_key:key_differs_from_e_ltk_skd", std::string(in) + " expected key bytes 0..15 (SK = e(LTK, SKDs||SKDm), most significant octet first) " + verif::hex(sk_msb.data(), 16), g_step);
    if (!iv_ok) verif::violation("C37", "C37:session_key:iv_differs_from_ivs_ivm", std::string(in) + " expected IV bytes 25..32 (IVm octets then IVs octets) " + verif::hex(iv.data(), 8), g_step);
    // was what is returned what the RNG delivered? (information only: any SKDs/IVs is acceptable to the specification)
    if (g_rng.log.size() >= 12 && le64(g_rng.log.data()) == ret.first) M.count("skds_equals_first_8_rng_bytes");
    return ret;
}

int main(int argc, char** argv)
{
    verif::args a(argc, argv);
    verif::install_crash_handler();
    verif::ctx_prop("C37");
    const unsigned long long seed = a.num("seed", 1);
    verif::prng r(seed);
    verif::run_config() = "session_key seed=" + std::to_string(seed);
    verif::monitor& M = mon("C37");

    nrf_stub::rng().set_stream(&rng_stream::next, &g_rng);
    g_rng.tail.reseed(seed ^ 0x5e55ull);

    // the binding's own initialisation points NRF_CCM->CNFPTR to its (file static) CCM configuration block
    verif::ctx_config("init");
    verif::ctx_op("radio_hardware_with_crypto_support::init");
    static std::uint8_t encrypted_area[300];
    hw::init(encrypted_area, &isr, 0);
    if (NRF_CCM->CNFPTR == 0) {
        verif::violation("C37", "C37:session_key:harness_cannot_observe_ccm_block", "NRF_CCM->CNFPTR is 0 after init()", 0);
        verif::finish();
        return 0;
    }

    // ---- Core Vol 6 Part C 1 sample data: LTK 0x4C68384139F574D836BCF34E9DFB01BF, SKDm 0xACBDCEDFE0F10213, IVm 0xBADCAB24,
    //      SKDs 0x0213243546576879, IVs 0xDEAFBABE  =>  SK 0x99AD1B5226A37E3E058E3B8E27C2C666, IV 0xDEAFBABEBADCAB24
    verif::ctx_config("sample_data");
    verif::ctx_op("setup_encryption sample");
    {
        static const std::uint8_t ltk_msb[16] = { 0x4C, 0x68, 0x38, 0x41, 0x39, 0xF5, 0x74, 0xD8, 0x36, 0xBC, 0xF3, 0x4E, 0x9D, 0xFB, 0x01, 0xBF };
        static const std::uint8_t sk_msb[16] = { 0x99, 0xAD, 0x1B, 0x52, 0x26, 0xA3, 0x7E, 0x3E, 0x05, 0x8E, 0x3B, 0x8E, 0x27, 0xC2, 0xC6, 0x66 };
        static const std::uint8_t iv_wire[8] = { 0x24, 0xAB, 0xDC, 0xBA, 0xBE, 0xBA, 0xAF, 0xDE };
        u128 ltk; for (int i = 0; i < 16; ++i) ltk[i] = ltk_msb[15 - i];
        // The slave's part comes from the RNG.  random_number64() = random_number32() | random_number32() << 32 (and so on down
        // to bytes) leaves the order of the two draws to the compiler, so the byte order in which SKDs/IVs must be handed
        // out to reproduce the sample is found by trying the 8 possible orders.
        std::pair<std::uint64_t, std::uint32_t> ret(0, 0);
        for (unsigned order = 0; order < 8 && !(ret.first == 0x0213243546576879ull && ret.second == 0xDEAFBABEu); ++order) {
            std::vector<std::uint8_t> bytes;
            const std::uint64_t vals[2] = { 0x0213243546576879ull, 0xDEAFBABEull };
            for (int which = 0; which < 2; ++which) {
                const unsigned n = which ? 4 : 8;
                for (unsigned k = 0; k < n; ++k) {
                    // position of the k-th drawn byte inside the value: swap halves at the 16/32/64 bit level as selected
                    unsigned idx = k;
                    if (order & 1) idx ^= 1;
                    if (order & 2) idx ^= 2;
                    if ((order & 4) && n == 8) idx ^= 4;
                    bytes.push_back(static_cast<std::uint8_t>(vals[which] >> (8 * idx)));
                }
            }
            g_rng.prefix = bytes; g_rng.pos = 0;
            ret = check(ltk, 0xACBDCEDFE0F10213ull, 0xBADCAB24u, "session_key_sample_call", order);
        }
        g_rng.prefix.clear(); g_rng.pos = 0;
        if (ret.first == 0x0213243546576879ull && ret.second == 0xDEAFBABEu) {
            // the sample was reproduced: compare with the specification's numbers directly (not through refimpl)
            const std::uint8_t* ccm = reinterpret_cast<const std::uint8_t*>(static_cast<std::uintptr_t>(NRF_CCM->CNFPTR));
            M.eval(2); M.cls("session_key_sample");
            if (std::memcmp(ccm, sk_msb, 16) != 0)
                verif::violation("C37", "C37:session_key:spec_sample_key", "Vol 6 Part C 1: expected SK 99AD1B5226A37E3E058E3B8E27C2C666, CCM block " + verif::hex(ccm, 33), g_step);
            if (std::memcmp(ccm + 25, iv_wire, 8) != 0)
                verif::violation("C37", "C37:session_key:spec_sample_iv", "Vol 6 Part C 1: expected IV octets 24ABDCBABEBAAFDE, CCM block " + verif::hex(ccm, 33), g_step);
            M.sample("Vol 6 Part C 1 sample reproduced: CCM block " + verif::hex(ccm, 33));
        } else M.count("sample_skds_ivs_not_reproduced_from_rng_order");
    }

    // ---- random
    verif::ctx_config("random");
    verif::ctx_op("setup_encryption");
    const unsigned long long ops = a.num("ops", 20000);
    for (unsigned long long i = 0; i < ops; ++i) {
        const int cl = r.chance(1, 2) ? V_RANDOM : r.range(0, V_CLASSES - 1);
        u128 ltk; fill(r, cl, ltk.data(), 16);
        std::uint8_t m[8], v[4];
        const int cm = r.chance(2, 3) ? V_RANDOM : r.range(0, V_CLASSES - 1), cv = r.chance(2, 3) ? V_RANDOM : r.range(0, V_CLASSES - 1);
        fill(r, cm, m, 8); fill(r, cv, v, 4);
        // now and then the RNG delivers extreme SKDs/IVs
        const unsigned rk = r.below(8);
        if (rk < 2) { g_rng.prefix.assign(12, rk ? 0xff : 0x00); g_rng.pos = 0; }
        const std::uint32_t ivm = static_cast<std::uint32_t>(v[0]) | (static_cast<std::uint32_t>(v[1]) << 8) | (static_cast<std::uint32_t>(v[2]) << 16) | (static_cast<std::uint32_t>(v[3]) << 24);
        check(ltk, le64(m), ivm, "session_key_random", static_cast<std::uint64_t>(cl) * 64 + cm * 16 + cv * 4 + (rk < 2 ? rk + 1 : 0));
        M.cls(vname(cl));
        g_rng.prefix.clear(); g_rng.pos = 0;
    }
    M.count("emulated_ecb_blocks", nrf_stub::ecb().blocks);
    verif::finish();
    return 0;
}
