"""Services family: C39 (bootloader only touches white-listed memory), C40 (CSC control point never deadlocks)."""
from vlib.core import Build, Run as _Run, Spec, SAN_ENV

# the harnesses allocate an exact-size heap block per PDU: the default 256 MB ASan quarantine makes the allocator
# (not the code under test) dominate the run time; 4 MB keeps use-after-free detection for recently freed blocks
ENV = {"ASAN_OPTIONS": SAN_ENV["ASAN_OPTIONS"] + ":quarantine_size_mb=4"}


def Run(build, args, **kw):
    return _Run(build, args, env=ENV, **kw)

BL_SRC = ["harness/services/bootloader_harness.cpp"]
CSC_SRC = ["harness/services/csc_harness.cpp"]
NCFG = 5


def bl_build(cfg):
    return Build("bootloader_cfg%d" % cfg, BL_SRC, flags=["-DBL_CFG=%d" % cfg])


def plan_c39(tier, seed):
    builds = [bl_build(c) for c in range(NCFG)]
    runs = []
    if tier == "quick":
        for c, b in enumerate(builds):
            # page 1024 (cfg 2) is the slow one: fewer operations there
            ops = 6000 if c == 2 else 25000
            runs.append(Run(b, ["--seed=%d" % seed, "--phases=sweep", "--rounds=1"], timeout=600, skippable=True))
            runs.append(Run(b, ["--seed=%d" % (seed * 100 + 1), "--phases=addr,episodes", "--ops=%d" % ops], timeout=600, skippable=True))
            runs.append(Run(b, ["--seed=%d" % (seed * 100 + 2), "--phases=episodes", "--ops=%d" % ops], timeout=600, skippable=True))
        runs.append(Run(builds[0], ["--seed=%d" % (seed * 100 + 3), "--phases=episodes", "--ops=25000"], timeout=600, skippable=True))
        return runs
    for c, b in enumerate(builds):
        ops = 40000 if c == 2 else 150000
        runs.append(Run(b, ["--seed=%d" % (seed * 1000), "--phases=sweep", "--rounds=%d" % (2 if c in (2, 4) else 4)], timeout=3000, skippable=True))
        runs.append(Run(b, ["--seed=%d" % (seed * 1000 + 10), "--phases=addr,episodes", "--ops=%d" % ops], timeout=3000, skippable=True))
        for k in range(3):
            runs.append(Run(b, ["--seed=%d" % (seed * 1000 + 20 + k), "--phases=episodes", "--ops=%d" % ops], timeout=3000, skippable=True))
    return runs


def plan_c40(tier, seed):
    b = Build("csc", CSC_SRC)
    runs = []
    variants = ["multi", "single", "crank"]
    if tier == "quick":
        for v in variants:
            for sync in (0, 1):
                runs.append(Run(b, ["--seed=%d" % seed, "--variants=%s" % v, "--sync=%d" % sync, "--depth=4", "--ops=0"], timeout=600, skippable=True))
        for k in range(10):
            runs.append(Run(b, ["--seed=%d" % (seed * 100 + k), "--variants=%s" % variants[k % 3], "--sync=%d" % (k % 2), "--depth=1", "--ops=60000"], timeout=600, skippable=True))
        return runs
    # exhaustive to depth 5 for every variant / confirm mode / start state, split by the first operation
    for v in variants:
        for sync in (0, 1):
            runs.append(Run(b, ["--seed=%d" % seed, "--variants=%s" % v, "--sync=%d" % sync, "--depth=5", "--ops=0"], timeout=3000, skippable=True))
    # depth 6 on the richest variant (multiple locations, deferred handler confirmation), CCCD configured at the start
    for first in range(18):
        runs.append(Run(b, ["--seed=%d" % seed, "--variants=multi", "--sync=0", "--starts=1", "--depth=6", "--first=%d" % first, "--ops=0"], timeout=3000, skippable=True))
    for k in range(16):
        runs.append(Run(b, ["--seed=%d" % (seed * 1000 + k), "--variants=%s" % variants[k % 3], "--sync=%d" % (k % 2), "--depth=1", "--ops=400000"], timeout=3000, skippable=True))
    return runs


SPECS = [
    Spec("C39", "exploration",
         rule="a real bluetoe::server with the bootloader service per configuration (page 16/64/1024, 1-3 white-listed regions incl. "
              "adjacent regions, a gap and a region one page below the top of the address space, MTU 23/65/128) is driven through "
              "l2cap_input/l2cap_output with exact-size heap buffers: (1) sweep = every opcode 0..10,0xff x every value length 0..20 x "
              "Write Request / Write Command / Prepare+Execute in three server states (idle, flash mode with a part-filled page, read "
              "procedure running), addresses from a boundary pool (region start/end +-1, page boundaries, gaps, 0, 2^64-1, wrapping), "
              "followed by data writes that continue across page and region ends and a Flush; (2) address sweep = Get CRC/Start "
              "Flash/Start/Read with exact lengths for every pool address; (3) protocol-conforming flash episodes (random chunking and "
              "write paths, end_flash/progress interleaving, Flush, Get CRC and Read back) with optional interleaved abuse. Every mock "
              "flash handler call is an evaluation of the region predicate; flashed pages, completed pages, Flush/Start Flash responses "
              "and progress notifications of conforming episodes are compared with the flash model and an independent adler32 chain. "
              "distinct_nontrivial = distinct (configuration, operation class [opcode x length class | data size class], write path, "
              "model state, address class, outcome [accepted | ATT error code], set of handler functions called).",
         plan=plan_c39,
         floor={"min_evaluations": 20000, "min_distinct": 400,
                "classes": ["cp_op0", "cp_op1", "cp_op2", "cp_op3", "cp_op4", "cp_op5", "cp_op6", "cp_op7", "cp_op8", "cp_op_undefined",
                            "cp_empty", "cp_len_1", "cp_len_9", "cp_len_17", "cp_len_20", "cp_op3_short", "cp_op3_long", "cp_op1_short",
                            "path_request", "path_command", "path_prepare_execute",
                            "addr_region_start", "addr_region_end", "addr_last_byte_of_region", "addr_behind_region_end",
                            "addr_before_region_start", "addr_gap_or_outside", "addr_extreme", "addr_page_boundary_inside",
                            "data_write", "data_cross_page", "data_cross_region_end", "data_overrun_attempt",
                            "call_start_flash", "call_read_mem", "call_public_read_mem", "call_public_checksum32", "call_run",
                            "region_predicate_ok", "page_flashed_checked", "page_complete_checked", "flush_checked",
                            "progress_checked", "start_flash_crc_checked", "episode_conforming_completed", "read_procedure_completed"]},
         assumptions=["the flash content / checksum-chain part of the oracle is demanded only in protocol-conforming episodes (Start Flash "
                      "while no page flash is outstanding, no over-run of the announced page buffers, no other control point procedure "
                      "before Flush); outside them bootloader.md does not define where data goes and only the region predicate and the "
                      "over-read check are demanded",
                      "Start (run) and Reset are recorded but not held to the white list (bootloader.md puts no constraint on them)",
                      "the mock handler signals one end_flash at a time and lets the progress notification out before the next one",
                      "values written through Prepare/Execute live in the server's write queue, where an over-read is not an ASan report; "
                      "on the unchanged tree Prepare Write to the control point crashes in the ATT layer (property C01/C07) and that "
                      "path is disabled for the rest of the run after the first crash"],
         crash_owner=True, design_ref="4/C39", technique="mock flash + region predicate + flash/adler32 reference model, exact-size buffers under ASan/UBSan"),
    Spec("C40", "exploration",
         rule="a real bluetoe::server with the CSC service (multiple sensor locations + wheel + crank; one location + wheel; crank only "
              "with two locations; handler confirming Set Cumulative Value synchronously or later) is driven through "
              "l2cap_input/l2cap_output. Alphabet: well-formed op 1 / 3 (valid and invalid location) / 4 / unknown op code, wrong-length "
              "op 1 / 3 / 4, empty write, Write Command op 4, Prepare Write, output poll, ATT confirmation, handler confirmation, "
              "disconnect+reconnect, CCCD on/off. Every history up to the stated depth is enumerated (iterative deepening, server + "
              "connection + model copied per node) from 'CCCD configured' and 'CCCD not configured', then random histories of 5..60 "
              "operations; every history ends with settling the link and a probe procedure. distinct_nontrivial = distinct (variant, "
              "confirm mode, operation, outcome [accepted | ATT error], CCCD / unconfirmed-indication / handler-outstanding flags, "
              "awaiting procedure before and after, cause hint) with a procedure involved.",
         plan=plan_c40,
         floor={"min_evaluations": 200000, "min_distinct": 300,
                "classes": ["accepted_op1", "accepted_op3", "accepted_op4", "accepted_unknown_opcode", "wellformed_accepted_while_idle",
                            "wellformed_rejected_in_progress_while_pending", "malformed_rejected", "empty_rejected",
                            "write_cccd_unconfigured_rejected", "wellformed_accepted_after_rejected_or_malformed", "write_command",
                            "prepare_write_refused", "response_indication_checked", "confirmation", "spurious_confirmation",
                            "handler_confirm", "disconnect", "disconnect_while_pending", "cccd_on", "cccd_off", "leaf_probe_answered"]},
         assumptions=["a procedure pending at a disconnect is considered abandoned with the link: the next connection must not be refused "
                      "because of it (reported with its own violation key)",
                      "the client does not disable indications while a procedure awaits its response (outcome is governed by C11)",
                      "a Write Command is only issued where the statement forces acceptance (CCCD configured, nothing awaiting), because "
                      "its acceptance cannot be observed directly",
                      "which error code a refused write carries, and whether malformed / unknown-parameter writes are accepted, is not "
                      "judged; ATT Read Requests on the control point are outside the quantifier (option --readcp=1 for diagnosis)"],
         crash_owner=True, design_ref="4/C40", technique="awaiting-procedure model + indication trace over exhaustive (bounded) and random histories, ASan/UBSan"),
]
