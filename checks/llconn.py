"""Family "llconn": the real link_layer<> on a simulated scheduled radio (virtual time) against a central model.
C20 channel selection (unit + end to end), C21 instant based procedures, C22 connection event timing / supervision /
CONNECT_IND validation, C23 peripheral latency."""
import os
from vlib.core import Build, Run, Spec, REPO


def R(p):
    return os.path.join(REPO, p)


# one translation unit (= one link_layer<> instantiation) per option set; -g1 / no variable tracking keeps a cold build
# of one unit at ~30 s CPU (full -g: ~70 s), line tables for sanitizer reports stay available
CONFIGS = ["default", "ignored", "strict", "strict_plus", "none", "set", "pending", "unack", "rx_not_empty",
           "tx_not_empty", "rx_md"]
LL_SOURCES = ["bluetoe/link_layer/channel_map.cpp", "bluetoe/link_layer/delta_time.cpp",
              "bluetoe/link_layer/connection_details.cpp", "bluetoe/utility/address.cpp"]

# the harness churns many small strings; a small quarantine keeps ASan's page faults down (4x faster). The only heap
# object of the code under test is the link layer itself (one per scenario), which 8 MB of quarantine still cover.
ENV = {"ASAN_OPTIONS": "abort_on_error=1:detect_leaks=0:detect_stack_use_after_return=1:handle_abort=0:"
                       "allocator_may_return_null=1:quarantine_size_mb=8"}


def conn_build(cfg):
    return Build("conn_" + cfg, ["harness/llconn/conn_harness_%s.cpp" % cfg] + [R(s) for s in LL_SOURCES],
                 flags=["-g1", "-fno-var-tracking"])


def chanmap_build():
    return Build("chanmap", ["harness/llconn/chanmap_harness.cpp", R("bluetoe/link_layer/channel_map.cpp")])


def conn_runs(mode, tier, seed, quick_ops, thorough_ops, configs=None, quick_configs=None, rounds=3, extra=()):
    runs = []
    cfgs = configs or CONFIGS
    if tier == "quick":
        cfgs = quick_configs or cfgs
        for j, c in enumerate(cfgs):
            runs.append(Run(conn_build(c), ["--mode=" + mode, "--seed=%d" % (seed * 100 + j), "--first=%d" % (j * quick_ops),
                                            "--ops=%d" % quick_ops] + list(extra), env=ENV, timeout=900, skippable=True))
        return runs
    for rnd in range(rounds):
        for j, c in enumerate(cfgs):
            runs.append(Run(conn_build(c), ["--mode=" + mode, "--seed=%d" % (seed * 1000 + rnd * 100 + j),
                                            "--first=%d" % ((rnd * len(cfgs) + j) * thorough_ops), "--ops=%d" % thorough_ops] + list(extra),
                            env=ENV, timeout=3000, skippable=True))
    return runs


def plan_c20(tier, seed):
    cm = chanmap_build()
    if tier == "quick":
        runs = [Run(cm, ["--seed=%d" % seed, "--families=1", "--ops=20000"], env=ENV)]
        runs += [Run(cm, ["--seed=%d" % (seed * 50 + i), "--families=0", "--ops=20000"], env=ENV) for i in range(1, 5)]
        # the latency / pull-back scenarios of C23 (latency up to 499, events moved back by several hundred events) are also
        # judged by the end to end CSA#1 monitor (a seeded change that corrupts the channel index in a pull-back was only
        # seen by C23 before)
        return (runs + conn_runs("c20", tier, seed, 200, 0, quick_configs=["default", "ignored", "set", "none"])
                + conn_runs("c23", tier, seed, 200, 0, quick_configs=["set", "default", "pending"]))
    runs = [Run(cm, ["--seed=%d" % seed, "--families=1", "--ops=100000"], env=ENV, timeout=3000)]
    runs += [Run(cm, ["--seed=%d" % (seed * 50 + i), "--families=0", "--ops=660000"], env=ENV, timeout=3000) for i in range(1, 16)]
    return (runs + conn_runs("c20", tier, seed, 0, 1200, rounds=2, extra=["--wrap_every=40"])
            + conn_runs("c23", tier, seed, 0, 1200, rounds=1))


def plan_c21(tier, seed):
    # 14 instant distances x 3 procedures x 3 latencies x 3 traffic shapes x 4 loss counts = 1512 grid cells = 4 x 378
    return conn_runs("c21", tier, seed, 378, 1512, rounds=3, quick_configs=["default", "ignored", "strict_plus", "set"],
                     extra=["--wrap_every=%d" % (97 if tier == "quick" else 29)])


def plan_c22(tier, seed):
    return conn_runs("c22", tier, seed, 320, 1600, rounds=3, quick_configs=["default", "ignored", "strict", "tx_not_empty"])


def plan_c23(tier, seed):
    return conn_runs("c23", tier, seed, 200, 1200, rounds=3,
                     quick_configs=["set", "default", "none", "pending", "unack", "tx_not_empty", "rx_md"])


COMMON_ASSUMPTIONS = [
    "the radio is the simulated one (harness/llconn/sim_radio.hpp): it implements the documented scheduled_radio contract on "
    "virtual time and, like the nRF52 binding, drops (does not acknowledge) a PDU when no receive buffer is free; real radio "
    "timing, interrupt latency and the nRF bindings themselves are not exercised",
    "11 link layer option sets (all predefined latency configurations, every listen option alone, a run time configuration "
    "set; sleep clock accuracies 1..500 ppm; buffer sizes 61..200) stand for 'all configurations'",
    "geometry tolerance 2 us for the fixed point ppm arithmetic (a window may be up to 2 us narrower than the exact bound)",
]

FAMILY_CLASSES = ["scenario_pending_procedure_pull_back", "scenario_pull_back_control", "notify_while_sleeping",
                  "notify_while_sleeping_to_instant_event", "notify_while_sleeping_with_pending_procedure",
                  "pull_back_while_procedure_pending"]
FAMILY_RULE = (" Every 4th scenario (option sets with listen_if_pending_transmit_data) is of the shared pull-back family: latency 1/3/10, "
               "idle subscribed peripheral, one of the three procedures with its instant 2..latency+3 events ahead (or none: control), "
               "the application notifies 1..3 times while the peripheral sleeps (right after the sleep began / in the middle / just "
               "before the planned event incl. inside the radio's safety margin of 100..3000 us), so that planned events - also the "
               "instant event itself - are pulled back while a procedure is pending.")

SPECS = [
    Spec("C20", "exploration",
         rule="unit: channel_map::reset(map,hop)/reset(map)/data_channel(0..36) compared with an independent CSA#1 for all 666 "
              "two-channel maps, the full map, all 37 one-removed, all 37 single-channel, the empty map and all maps contiguous at "
              "either end, each with 3 settings of the reserved bits 37..39, x hops 0..31, on a fresh object (connect), as map "
              "update keeping the hop, and as rejected call that must leave the active sequence unchanged; plus random maps with "
              "uniform number of used channels. End to end: every channel passed to schedule_connection_event of the real link "
              "layer (random maps/hops/latency, 1-4 channel map updates, lost events, 16 bit counter wrap, invalid CONNECT_IND "
              "and invalid map updates) equals CSA#1(map in force at the central, hop, unbounded event number derived from the "
              "link layer's counter and the last anchor). distinct_nontrivial = distinct (path, used channels, hop, number of "
              "remapped indices) resp. (used channels, hop, event mod 37, remapped?, after update?).",
         plan=plan_c20,
         floor={"min_evaluations": 1000000, "min_distinct": 3000,
                "classes": ["two_channel", "one_removed", "single_channel_rejected", "empty_rejected", "contiguous_low", "contiguous_high",
                            "invalid_hop_rejected", "random_map", "rfu_bits_set", "update_keep_hop", "reject_keeps_active_map",
                            "remapped_index", "e2e_remapped_event", "e2e_unmapped_used_event", "e2e_after_channel_map_update",
                            "invalid_connect_ind_ignored", "invalid_map_update_not_applied_checked", "scenario_map_updates"],
                "counters": {"connection_events_completed": 5000, "enumerated_maps_x_rfu_variants": 2442}},
         assumptions=COMMON_ASSUMPTIONS + [
             "2^37 maps are sampled, the listed families are enumerated completely",
             "a rejected reset(map, hop) with a valid hop overwrites the stored hop (observable only through a later reset(map), a "
             "call sequence the link layer cannot produce: a rejected CONNECT_IND leaves no connection); counted as diagnostic "
             "'diag_hop_replaced_by_rejected_reset_then_used_by_reset_map', not as violation"],
         design_ref="4/C20", technique="reference model (independent CSA#1) at unit level and over the simulated radio's schedule log, ASan/UBSan"),
    Spec("C21", "fault_enumeration",
         rule="grid: instant - counter in {-32768,-1000,-2,-1,0,+1,+2,+3,+6,latency,latency+1,+500,+32766,+32767} x "
              "{LL_CONNECTION_UPDATE_IND, LL_CHANNEL_MAP_IND, LL_PHY_UPDATE_IND} x latency {0,3,10} x traffic {none, one write request "
              "per event, bursts of write commands filling the receive ring} x 0..3 losses of the indication before it arrives, sent at "
              "small counters and just before the 16 bit wrap, central drift at/inside the declared accuracy. Judged relative to the "
              "event at which the radio stored the indication: instant current or past ((instant-counter) mod 65536 = 0 or > 32767) "
              "=> only termination with 0x28 is admissible; next event (+1) and exactly 32767 => either outcome accepted; future => "
              "connection_changed / channel sequence / radio_set_phy must switch exactly at the instant with the carried values, the "
              "instant event must be scheduled, writes stored while pending must reach the server within 3 attended events after the "
              "instant. distinct_nontrivial = distinct (procedure, instant class, latency?, lost before?, data while pending, ring "
              "full?, outcome, small distance)." + FAMILY_RULE,
         plan=plan_c21,
         floor={"min_evaluations": 20000, "min_distinct": 100,
                "classes": ["conn_update", "chan_map", "phy_update", "instant_in_the_future", "instant_in_the_past",
                            "instant_is_current_event", "instant_is_next_event", "with_peripheral_latency", "lost_before_reception",
                            "data_received_while_pending", "receive_ring_full_while_pending", "outcome_applied_at_instant",
                            "outcome_instant_passed", "instant_event_listened", "pending_data_processed_after_instant",
                            "scenario_counter_near_wrap", "scenario_instant_grid"] + FAMILY_CLASSES,
                "counters": {"connection_events_completed": 20000, "scenarios": 1000}},
         assumptions=COMMON_ASSUMPTIONS + [
             "boundaries left open by the statement are accepted either way: instant = counter+1 FOR CONNECTION UPDATES ONLY (the next event is "
             "already planned with the old timing: applied at the instant or terminated with 0x28; channel map and PHY updates must be "
             "applied) and (instant-counter) mod 65536 = 32767 (Core: past; applying at the instant also satisfies the statement)",
             "'never stops processing longer than until its instant' is judged as bounded progress: 3 attended connection events after "
             "the instant; scenarios in which the (separate, reported) receive/transmit ring deadlock of the data path occurs are not "
             "judged for that clause",
             "scenarios in which the central applied the procedure before the peripheral could have received the indication are "
             "only judged for what the peripheral does with the (then late) indication"],
         design_ref="4/C21", technique="trace checker over the radio/callback log with the central model as ground truth, fault enumeration, ASan/UBSan"),
    Spec("C22", "fault_enumeration",
         rule="scenario classes: valid corners of CONNECT_IND (interval 7.5 ms..4 s, latency 0..max, timeout min..32 s, window size/"
              "offset extremes), every single field out of range (incl. the boundaries interval 6.25 ms/4001.25 ms, timeout = 2 x "
              "effective interval, window size 0 / = interval), runs of 0..8 consecutively missed events (lost / CRC error), central "
              "disappearing (before and after establishment), connection updates, long gaps (latency, 4 s intervals), random "
              "traffic/faults; x central SCA 0..7 x 11 local accuracies x central drift at +/- the combined accuracy, 0, random x "
              "position inside the transmit window. Every schedule_connection_event call is judged: window must contain [nominal - "
              "ppm*elapsed, nominal(+transmit window) + ppm*elapsed] (2 us tolerance), centre at a whole number of intervals, interval "
              "argument; operationally a central inside its accuracy must be heard; closed(0x08) only after >= timeout since the last "
              "anchor; first scheduled event after an invalid CONNECT_IND is a violation. distinct_nontrivial = distinct (window kind, "
              "combined ppm, elapsed class, skipped?, interval) and (timeout, interval, latency) of supervision timeouts." + FAMILY_RULE,
         plan=plan_c22,
         floor={"min_evaluations": 50000, "min_distinct": 300,
                "classes": ["connect_ind_valid", "connect_ind_invalid", "window_after_connect_ind", "window_after_update", "window_steady",
                            "event_heard", "event_missed", "supervision_timeout", "establishment_timeout", "scenario_valid_corner",
                            "scenario_invalid_single_field", "scenario_missed_events", "scenario_supervision", "scenario_update",
                            "scenario_long_elapsed", "scenario_random"] + FAMILY_CLASSES,
                "counters": {"connection_events_completed": 10000, "connections_established": 300}},
         assumptions=COMMON_ASSUMPTIONS + [
             "'valid timing parameters' = Core Vol 6 Part B 2.3.3.1/4.5.1-4.5.3 ranges (interval 7.5 ms-4 s, latency <= 499, timeout 100 ms-32 s "
             "and larger than (1+latency)*interval*2, window size 1.25 ms..min(10 ms, interval-1.25 ms), window offset <= interval)",
             "time without valid packet is measured from the last anchor (start of the last connection event with a valid packet); "
             "a drop that is early by less than (central + local sleep clock accuracy) x timeout is within what the peripheral can "
             "measure and is accepted (seen: 4 ms before 32 s when the widened windows overlap and the radio reports events whose "
             "start already passed as timed out immediately)",
             "giving up a connection attempt is accepted after 6 attended connection events or after connSupervisionTimeout, whichever "
             "the implementation uses (the statement does not single out the establishment phase)"],
         design_ref="4/C22", technique="trace checker (window arithmetic + geometry against a drifting central), fault enumeration, ASan/UBSan"),
    Spec("C23", "exploration",
         rule="11 latency configurations (4 predefined, none, each option alone, a set switched at run time at random events) x latency "
              "0..20 and 499 x random traffic (requests, command bursts, multi PDU events), lost/CRC/response-lost events, flags the radio "
              "reports (truthful, plus randomly added ones), application notify() at random virtual times between events (also inside "
              "the radio's safety margin so that disarm is refused), disarm margins 100..3000 us. For consecutive scheduling calls: "
              "counter advance <= latency in force + 1; = 1 if a configured listen condition, an error or a timeout held; channel index "
              "advances with the counter (mod 37); window centre = counter advance x interval from the last anchor; a heard event's "
              "central event number = number derived from the counter; after a pull-back the replacement is not later, not before an "
              "event that took place, not before now. distinct_nontrivial = distinct (configuration, previous outcome, reported flags, "
              "pending tx, latency class, counter advance) with latency > 0 or a pull-back." + FAMILY_RULE,
         plan=plan_c23,
         floor={"min_evaluations": 100000, "min_distinct": 150,
                "classes": ["skipped_events", "skipped_full_latency", "after_timeout", "pull_back", "pull_back_moved_earlier",
                            "listen_condition_listen_always", "listen_condition_unacknowledged_data", "listen_condition_last_received_not_empty",
                            "listen_condition_last_transmitted_not_empty", "listen_condition_last_received_had_more_data",
                            "listen_condition_pending_transmit_data", "listen_condition_error_occured", "scenario_latency_499",
                            "scenario_latency_1_20", "scenario_latency_0"] + FAMILY_CLASSES,
                "counters": {"disarmed_events": 20, "disarm_refused": 1, "notify_calls": 200, "configuration_switches": 10,
                             "connection_events_completed": 20000}},
         assumptions=COMMON_ASSUMPTIONS + [
             "that a possible pull-back actually takes place is not demanded (only that counter, channel index and time stay consistent "
             "when it does); a pulled back event that lands inside the radio's setup margin is reported to the link layer as timeout and "
             "counted as diagnostic"],
         design_ref="4/C23", technique="trace checker (counter/channel/time conservation, listen rule table from the documentation), ASan/UBSan"),
]
