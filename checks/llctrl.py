"""Family llctrl: the real link_layer<> against a simulated radio on virtual time and a central model.
C27 (control PDU responses + 40 s response timeout), C28 (encryption only with a supplied key), C29 (connection
lifecycle callbacks).  One link_layer<> instantiation per translation unit (-DLLCTRL_CFG=n), six configurations."""
import os
from vlib.core import Build, Run, Spec, REPO


def R(p):
    return os.path.join(REPO, p)


REPO_SRC = [R("bluetoe/utility/address.cpp"), R("bluetoe/link_layer/channel_map.cpp"),
            R("bluetoe/link_layer/connection_details.cpp"), R("bluetoe/link_layer/delta_time.cpp")]

# cfg -> (source, description)
CFG = {
    0: "harness/llctrl/ctrl_harness.cpp",       # default options, 1 MBit radio, buffers 61/61
    1: "harness/llctrl/ctrl_harness.cpp",       # 2 MBit radio, buffers 255/255
    2: "harness/llctrl/ctrl_harness.cpp",       # desired_connection_parameters<>, 1 MBit
    3: "harness/llctrl/ctrl_harness.cpp",       # asynchronous_connection_parameter_request<>, 2 MBit, signaling channel
    4: "harness/llctrl/ctrl_harness_sec.cpp",   # requires_encryption server, key table security manager, 2 MBit
    5: "harness/llctrl/ctrl_harness_sec.cpp",   # requires_encryption server, legacy_security_manager + bonding_data_base
}

_builds = {}


def build(cfg):
    if cfg not in _builds:
        # -g1: line tables only; full debug info of one link_layer<> instantiation costs ~4x the compile time
        _builds[cfg] = Build("llctrl_cfg%d" % cfg, [CFG[cfg]] + REPO_SRC, flags=["-g1", "-DLLCTRL_CFG=%d" % cfg])
    return _builds[cfg]


def run(cfg, mode, seed, ops, extra=(), timeout=900):
    return Run(build(cfg), ["--mode=%s" % mode, "--seed=%d" % seed, "--ops=%d" % ops] + list(extra), timeout=timeout,
               tag="cfg%d %s seed=%d ops=%d %s" % (cfg, mode, seed, ops, " ".join(extra)))


# ---------------------------------------------------------------------------------------------- C27
def plan_c27(tier, seed):
    runs = []
    if tier == "quick":
        for cfg in range(6):
            runs.append(run(cfg, "ctrl", seed * 100 + cfg, 8000))
        for cfg in (1, 2, 3, 4):
            runs.append(run(cfg, "timeout", seed * 100 + 10 + cfg, 20))
        for cfg in (1, 3, 4):
            runs.append(run(cfg, "ctrl", seed * 100 + 20 + cfg, 8000))
        for cfg in (0, 1, 5):
            runs.append(run(cfg, "timeout", seed * 100 + 30 + cfg, 20))
        return runs
    for rep in range(4):
        for cfg in range(6):
            runs.append(run(cfg, "ctrl", seed * 1000 + rep * 10 + cfg, 150000, timeout=3000))
    for rep in range(2):
        for cfg in range(6):
            runs.append(run(cfg, "timeout", seed * 1000 + 100 + rep * 10 + cfg, 250, timeout=3000))
    return runs


# ---------------------------------------------------------------------------------------------- C28
def plan_c28(tier, seed):
    runs = []
    if tier == "quick":
        # all sequences up to length 4 over the 7 symbols (2800), split over 5 processes per configuration,
        # + random sequences of length 6..15; the control PDU workload of C27 on the encrypting configurations on top
        for cfg in (4, 5):
            for part in range(5):
                runs.append(run(cfg, "enc", seed * 100 + cfg * 10 + part, 150, ["--depth=4", "--part=%d" % part, "--parts=5"]))
            runs.append(run(cfg, "ctrl", seed * 100 + 60 + cfg, 8000))
        return runs
    # all sequences up to length 5 (19607) per configuration, 8 processes each, and long random ones
    for cfg in (4, 5):
        for part in range(8):
            runs.append(run(cfg, "enc", seed * 1000 + cfg * 10 + part, 6000, ["--depth=5", "--part=%d" % part, "--parts=8"], timeout=3000))
        for rep in range(2):
            runs.append(run(cfg, "ctrl", seed * 1000 + 100 + rep * 10 + cfg, 120000, timeout=3000))
    return runs


# ---------------------------------------------------------------------------------------------- C29
def plan_c29(tier, seed):
    runs = []
    if tier == "quick":
        for cfg in range(6):
            runs.append(run(cfg, "life", seed * 100 + cfg, 900))
        for cfg in (1, 2, 3, 4, 5):
            runs.append(run(cfg, "life", seed * 100 + 10 + cfg, 900))
        for cfg in (0, 1, 3, 4, 5):
            runs.append(run(cfg, "ctrl", seed * 100 + 20 + cfg, 4000))
        return runs
    for rep in range(3):
        for cfg in range(6):
            runs.append(run(cfg, "life", seed * 1000 + rep * 10 + cfg, 20000, timeout=3000))
    for cfg in range(6):
        runs.append(run(cfg, "ctrl", seed * 1000 + 100 + cfg, 100000, timeout=3000))
    return runs


ASSUME_RADIO = ("the scheduled radio is simulated (harness/llctrl/sim_radio.hpp, documented interface of scheduled_radio.hpp, "
                "virtual time); several PDUs per connection event (MD) are exchanged as the interface allows, the shipped nRF52 "
                "binding exchanges one PDU per event")

SPECS = [
    Spec("C27", "exploration",
         rule="six link_layer<> option sets (1/2 MBit radio, buffer sizes 61..255, default / desired / asynchronous connection "
              "parameter handling, with and without encryption) are connected by a central model with its own SN/NESN machine; "
              "bursts of 1..5 control PDUs per connection event (opcode: weighted 0..0x30, 0xff, any; length: specified, +-1, 0, "
              "random 0..27; payload random, instants/parameters crafted so the link survives) with per-PDU loss in both directions "
              "and local procedures / instants / disconnect pending; every accepted PDU creates an expectation from a table written "
              "from Core Vol 6 Part B 2.4.2, 5.1, 5.2 and every control PDU of the peripheral is matched in order against them, the rest "
              "at quiescence; timeout scenarios start each peripheral-initiated procedure, answer it or not, and compare the virtual "
              "time of ll_connection_closed(0x22) with 40 s +- one interval. distinct_nontrivial = distinct (input class, opcode, "
              "length, procedure state) and (answered class, answering opcode) and (timeout scenario, interval, answered).",
         plan=plan_c27,
         floor={"min_evaluations": 60000, "min_distinct": 400,
                "classes": ["feature_req", "version_first", "version_later", "ping_req", "phy_req_2m", "phy_req_1m", "cpr_valid_default",
                            "cpr_valid_desired", "cpr_valid_async", "cpr_invalid", "unknown_opcode", "wrong_length", "unknown_rsp", "reject_ind",
                            "reject_ext_ind", "len0", "enc_req", "enc_req_unsupported", "answered:feature_req", "answered:version_first",
                            "answered:ping_req", "answered:phy_req_2m", "answered:unknown_opcode", "answered:wrong_length",
                            "answered:cpr_valid_default", "answered:cpr_valid_desired", "answered:cpr_valid_async", "answered:cpr_invalid",
                            "answered:enc_req", "burst2-5", "loss_c2p", "loss_p2c", "state:local_procedure", "state:instant_pending",
                            "state:disconnecting", "timeout_scenario:conn_param_req:unanswered", "timeout_scenario:conn_param_req:answered",
                            "timeout_scenario:version_ind:unanswered", "timeout_scenario:version_ind:answered",
                            "timeout_scenario:phy_req:unanswered", "timeout_close:conn_param_req", "timeout_close:version_ind",
                            "timeout_not_closed_when_answered"],
                "counters": {"connections": 200, "steps": 50000}},
         assumptions=[ASSUME_RADIO,
                      "FeatureSet[0] = supported AND remote is demanded exactly for the first LL_FEATURE_REQ of a connection; after a repeated "
                      "request, a 4.0 LL_VERSION_IND or LL_UNKNOWN_RSP(LL_CONNECTION_PARAM_REQ) only a subset is demanded",
                      "PDUs only a peripheral may send, responses to requests never sent, malformed responses/rejects and zero length control "
                      "PDUs may be answered with LL_UNKNOWN_RSP / a reject or not at all",
                      "instant based PDUs are sent one after the other with instants in the future (passed instants are C21)"],
         crash_owner=True, design_ref="4/C27",
         technique="reference table + in-order trace matcher on the central's side, virtual clock for the 40 s procedure response timeout, ASan/UBSan"),

    Spec("C28", "exploration",
         rule="server with an encryption-protected characteristic on (a) a minimal security manager and (b) bluetoe::legacy_security_manager "
              "+ bonding_data_base, both reading a key table the harness controls; every sequence over {LL_ENC_REQ known key, LL_ENC_REQ "
              "unknown key (differs in EDIV or Rand only, or random), LL_START_ENC_RSP, LL_PAUSE_ENC_REQ, LL_PAUSE_ENC_RSP, ATT read of the "
              "protected attribute, disconnect+reconnect} up to the stated depth is run on a new connection of a reused link layer, then "
              "random sequences of length 6..15 and the random control PDU workload; after every symbol the link is run to quiescence and "
              "security_attributes().is_encrypted (from every connection callback and directly) and the ATT answer are compared with the "
              "central-side automaton of Core Vol 6 Part B 5.1.3 (encrypted only after LL_ENC_REQ with a key in the table, the peripheral's "
              "LL_START_ENC_REQ and LL_START_ENC_RSP; never after a rejected request, a pause or a reconnect). distinct_nontrivial = "
              "distinct (symbol history suffix, observation, outcome).",
         plan=plan_c28,
         floor={"min_evaluations": 20000, "min_distinct": 1500,
                "classes": ["sym:ENC_REQ_known", "sym:ENC_REQ_unknown", "sym:START_ENC_RSP", "sym:PAUSE_ENC_REQ", "sym:PAUSE_ENC_RSP",
                            "sym:ATT_READ", "sym:RECONNECT", "legit_encrypted_observed", "protected_read_value", "protected_read_refused"],
                "counters": {"sequences_enumerated": 2800, "key_lookups": 1000}},
         assumptions=[ASSUME_RADIO,
                      "no pairing is performed: the long term keys come from the bond data base / key table only; cryptography is not "
                      "evaluated (the radio's encryption entry points are recorded, not executed)",
                      "PDUs are delivered whatever the radio's encryption state is; the model is the sequence of PDUs, not their protection"],
         design_ref="4/C28", technique="reference automaton (central side of the encryption start/pause procedures) + bounded exhaustive symbol sequences, ASan/UBSan"),

    Spec("C29", "exploration",
         rule="connection_callbacks<> recorder on all six option sets; scenarios: CONNECT_IND never followed by an event, lost first events, "
              "connection updates, feature/version exchange, then one of {remote LL_TERMINATE_IND with random reason, local disconnect() "
              "with default/custom reason, central silent (supervision), LL_CONNECTION_UPDATE_IND with passed instant} preceded IN THE SAME "
              "connection event by a burst of 0..8 PDUs that each produce a callback (reject, reject ext, unknown rsp, feature req, version "
              "ind, phy update), lost events in between; on the encrypting option sets a completed encryption start (LL_START_ENC_RSP) and "
              "LL_PAUSE_ENC_REQ each as last PDU of such a burst, connection updates whose instant is reached in an event with such a burst: "
              "every actual change (encryption on/off as decided by the C28 automaton and confirmed by security_attributes, connection "
              "update at its instant) must be reported by exactly one ll_connection_changed; plus the random control PDU workload of C27. "
              "The callback sequence per connection "
              "is checked online against requested (established changed* closed(reason) | attempt_timeout) with ground truth from the "
              "radio (CONNECT_IND delivered, first event heard, back to advertising, PDUs that reached the link layer). distinct_nontrivial "
              "= distinct (cause of the end, burst size, callback sequence).",
         plan=plan_c29,
         floor={"min_evaluations": 30000, "min_distinct": 300,
                "classes": ["end:remote_terminate", "end:local_disconnect", "end:supervision_timeout", "end:instant_passed", "end:never_answered",
                            "end:burst0", "end:burst1-3", "end:burst4", "end:burst5+", "scenario:never_answer", "life:connection_update",
                            "scenario:encryption_change_in_burst", "change:encryption_on", "change:encryption_off", "change:connection_update",
                            "change_burst:burst0", "change_burst:burst1-3", "change_burst:burst4", "change_burst:burst5+",
                            "changed_reported:encryption_on", "changed_reported:encryption_off", "changed_reported:connection_update"],
                "counters": {"connections": 2000, "callbacks": 10000}},
         assumptions=[ASSUME_RADIO,
                      "completeness is demanded for requested / established / attempt_timeout / closed and for ll_connection_changed (one per "
                      "encryption on/off and per applied connection update, in the life and enc workloads where every source of change is "
                      "tracked; not on connections where the processing order is unknown or that end while the change is under way); a lost "
                      "version, reject, unknown, feature or phy callback is not a violation",
                      "for a local disconnect the reason given to disconnect() is the consistent one"],
         design_ref="4/C29", technique="online regular-language trace checker fed with the simulated radio's ground truth, ASan/UBSan"),
]
