"""Family E (nRF52 binding on the host): C37 (security tool box computes the specified cryptography) and C38
(generated passkeys are uniformly chosen six-digit values).  The unmodified security_tool_box.cpp + uECC.c run over the
emulated RNG/ECB register file of stubs/nrf/nrf.h; oracles are refimpl/ (written from FIPS-197, RFC 4493, Core spec)."""
import os
from vlib.core import Build, Run, Spec, REPO


def R(p):
    return os.path.join(REPO, p)


NRF_FLAGS = ["-fpermissive", "-no-pie", "-DuECC_CURVE=uECC_secp256r1", "-DuECC_WORD_SIZE=4", "-DuECC_ASM=0"]
NRF_INCLUDES = ["stubs/nrf", R("bluetoe/bindings/nordic/nrf52/include"), R("bluetoe/bindings/nordic/uECC")]


def toolbox_build():
    return Build("toolbox",
                 ["harness/crypto/toolbox_harness.cpp", R("bluetoe/bindings/nordic/nrf52/security_tool_box.cpp"),
                  R("bluetoe/utility/address.cpp")],
                 c_sources=[R("bluetoe/bindings/nordic/uECC/uECC.c")],
                 flags=NRF_FLAGS, std="c++14", includes=NRF_INCLUDES)


def session_key_build():
    return Build("session_key",
                 ["harness/crypto/session_key_harness.cpp", R("bluetoe/bindings/nordic/nrf52/nrf52.cpp"),
                  R("bluetoe/bindings/nordic/nrf52/security_tool_box.cpp"), R("bluetoe/utility/address.cpp"),
                  R("bluetoe/link_layer/delta_time.cpp")],
                 c_sources=[R("bluetoe/bindings/nordic/uECC/uECC.c")],
                 flags=NRF_FLAGS, std="c++14", includes=NRF_INCLUDES)


def plan_c37(tier, seed):
    b = toolbox_build()
    sk = session_key_build()
    runs = []
    if tier == "quick":
        n, ops, points, skops = 15, 1400, 144, 20000      # 15 * 1400 = 2.1e4 random inputs per function, 2.16e3 points
    else:
        n, ops, points, skops = 15, 35000, 3500, 500000   # 5.25e5 random inputs per function, 5.25e4 points (11 CPU-minutes)
    for i in range(n):
        runs.append(Run(b, ["--mode=c37", "--seed=%d" % (seed * 1000 + i), "--ops=%d" % ops, "--points=%d" % points], timeout=3000))
    runs.append(Run(sk, ["--seed=%d" % seed, "--ops=%d" % skops], timeout=3000))
    return runs


def plan_c38(tier, seed):
    b = toolbox_build()
    runs = []
    if tier == "quick":
        n, passkeys, adv = 15, 1000000, 6000
    else:
        n, passkeys, adv = 15, 30000000, 600000
    # one run enumerates all 2^24 three-byte RNG prefixes (exact preimage counting)
    exact = ["--mode=c38", "--seed=%d" % (seed * 1000 + 999), "--passkeys=60000", "--adversarial=600", "--exact=1"]
    if tier != "quick":
        # if every three-byte prefix makes the generator draw a fourth byte, all 2^32 four-byte prefixes are counted
        exact += ["--exact4=1", "--workers=16"]
    runs.append(Run(b, exact, timeout=6000))
    for i in range(n):
        runs.append(Run(b, ["--mode=c38", "--seed=%d" % (seed * 1000 + i), "--passkeys=%d" % passkeys, "--adversarial=%d" % adv], timeout=3000))
    return runs


SPECS = [
    Spec("C37", "exploration",
         rule="security_tool_box::c1, s1, f4, f5, f6, g2 (plus aes_le, p256, generate_keys) of the unmodified nRF52 binding, running over "
              "an emulated ECB/RNG register file, are compared with an independent reference (AES-128 from FIPS-197, AES-CMAC from "
              "RFC 4493, message layouts from Core Vol 3 Part H 2.2) on the specification's sample data and on seeded inputs whose "
              "arguments are drawn per argument from {random, all-zero, all-one, single bit, msb only, low byte only}, all four address "
              "type combinations, legal/random/extreme IO capability triples; is_valid_public_key is compared with the predicate "
              "0<=x,y<p, y^2=x^3-3x+b on 16 kinds of candidates (multiples of G, lifted abscissae, negations, bit flips, x+p, "
              "-y+1, zero coordinates, p/2^256-1, random, swapped, big-endian, one coordinate byte-reversed, x+1); the session key/IV left in the CCM block by "
              "radio_hardware_with_crypto_support::setup_encryption are compared with e(LTK, SKDs||SKDm) and IVs||IVm. "
              "distinct_nontrivial = distinct (function, input class per argument, address types / io class / point kind, "
              "outcome) tuples.",
         plan=plan_c37,
         floor={"min_evaluations": 100000, "min_distinct": 300,
                "classes": ["kat_aes_le", "kat_c1", "kat_s1", "kat_f4", "kat_f5", "kat_f6", "kat_g2", "kat_p256", "kat_pubkey",
                            "aes_le", "c1", "c1_pdu", "s1", "f4", "f5", "f6", "g2",
                            "key_zero", "key_ones", "key_random",
                            "addr_public_public", "addr_random_public", "addr_public_random", "addr_random_random",
                            "iocap_legal_triple", "iocap_random", "iocap_extreme",
                            "pk_multiple_of_g", "pk_lift_random_x", "pk_special_valid", "pk_negated", "pk_bitflip_x", "pk_bitflip_y",
                            "pk_x_plus_p", "pk_neg_y_plus_1", "pk_zero_coordinate", "pk_extreme_value", "pk_random_bytes",
                            "pk_swapped_xy", "pk_big_endian_encoding", "pk_x_plus_1", "pk_x_bytes_reversed", "pk_y_bytes_reversed",
                            "pubkey_valid_accepted", "pubkey_invalid_rejected", "p256_dhkey", "generate_keys",
                            "session_key_sample", "session_key_random"],
                "counters": {"emulated_ecb_blocks": 10000}},
         assumptions=["the ECB peripheral is emulated by the reference AES-128 (validated on FIPS-197 vectors); a defect of the real "
                      "peripheral or of the reference AES that is common to both sides of the comparison is covered only by the "
                      "known-answer vectors",
                      "uECC.c is built with uECC_WORD_SIZE=4 and without the ARM assembler (uECC_ASM=0); the target's assembler "
                      "paths are not executed",
                      "'accepted only if valid': rejecting a valid key is counted (pubkey_valid_rejected) but is not a violation; "
                      "the floor requires that valid keys were accepted at all",
                      "p256 is exercised only with valid peer keys and private keys in [1, n-1] (behaviour outside is unspecified)"],
         crash_owner=True, design_ref="4/C37",
         technique="differential + known-answer against independent reference cryptography on an emulated register file, ASan/UBSan"),
    Spec("C38", "exploration",
         rule="create_passkey() of the unmodified nRF52 tool box is called with the emulated RNG delivering (a) seeded uniform byte "
              "streams, (b) adversarial finite prefixes (all 0x00, all 0xFF, counter, alternating, 999999/1000000/0xFFFFF patterns, "
              "1..64 bytes) followed by seeded bytes, (c) every one of the 2^24 three-byte prefixes.  Each result is read as the "
              "security manager displays it (little-endian 32 bit at the start of the array) and must be <= 999999 with bytes 4..15 "
              "zero (it is the TK).  Uniformity: exact preimage counting over (c) (max count <= 2^24/1e6 <= min count + undecided "
              "prefixes) and chi-square over (a) on 10 buckets, last digit and 1000 buckets with fixed thresholds 110/110/1500 "
              "(a uniform generator exceeds them with probability 1.5e-19 / 1.5e-19 / 8.5e-23).  distinct_nontrivial = distinct "
              "(stream class, value bucket of width 10000 or 2^20 above the range, padding ok).",
         plan=plan_c38,
         floor={"min_evaluations": 1000000, "min_distinct": 100,
                "classes": ["stream_prng", "stream_all_00_prefix", "stream_all_ff_prefix", "stream_counter_prefix",
                            "stream_alternating_prefix", "stream_max_six_digit_prefix", "stream_boundary_prefix",
                            "stream_exhaustive_3_byte_prefixes", "passkey_in_range"]},
         assumptions=["adversarial patterns are finite prefixes followed by seeded bytes: a generator that draws again after an "
                      "unusable value (rejection sampling) cannot terminate on an infinite constant stream, and a hardware RNG "
                      "does not produce one; a call that consumes 100000 RNG bytes without a result is reported",
                      "uniformity is judged on the values inside 000000..999999; values outside are range violations",
                      "quick tier: a bias that only shows beyond the first three RNG bytes and is below the resolution of the "
                      "chi-square samples (e.g. a 32 bit value reduced modulo 1000000, relative bias 2e-4) is decided only by the "
                      "thorough tier's count over all 2^32 four-byte prefixes; generators needing five or more bytes are judged "
                      "statistically only"],
         crash_owner=False, design_ref="4/C38",
         technique="range monitor + exhaustive preimage counting + fixed-threshold chi-square on an emulated RNG"),
]
