"""Family B (link-layer data path units): C15, C16, C17 (ll_data_pdu_buffer against a Core 4.5.9 central over a lossy /
corrupting channel, routed like the nRF52 ISR) and C18 (pdu_ring_buffer against a reference deque + reference allocator)."""
import os
from vlib.core import Build, Run, Spec, REPO, SAN_ENV

# the code under test never allocates; a small quarantine keeps ASan from touching fresh pages for every harness allocation
ENV = {"ASAN_OPTIONS": SAN_ENV["ASAN_OPTIONS"] + ":quarantine_size_mb=8"}

STUB = "harness/datapath/stub"      # tiny <nrf.h> so that bluetoe/nrf.hpp (encrypted_pdu_layout) compiles on the host


def ring_build():
    return Build("ring_harness", ["harness/datapath/ring_harness.cpp"], includes=[STUB])


def llbuf_build():
    return Build("llbuf_harness", ["harness/datapath/llbuf_harness.cpp"], includes=[STUB])


# ------------------------------------------------------------------------------------------------ C18
RING_CONFIGS = 16        # ring sizes 12..300 x {default, nRF encrypted} layout, see ring_harness.cpp main()


def plan_c18(tier, seed):
    b = ring_build()
    runs = []
    for c in range(RING_CONFIGS):
        if tier == "quick":
            args = ["--depth=6", "--ops=100000"]
            to = 600
        else:
            args = ["--depth=8", "--ops=4000000"]
            to = 3000
        runs.append(Run(b, ["--seed=%d" % (seed * 100 + c), "--config=%d" % c] + args, timeout=to, env=ENV))
    return runs


# ------------------------------------------------------------------------------------------------ C15 / C16 / C17
PARTS = 16


def plan_llbuf(tier, seed, mic):
    b = llbuf_build()
    runs = []
    # k: enumerated events for all buffer configurations, kbig: for the six base configurations (29/61/100 bytes, both layouts)
    if tier == "quick":
        k, kbig, ops = 4, 4, 15000
    else:
        k, kbig, ops = (4, 5, 300000) if mic else (5, 6, 300000)
    for p in range(PARTS):
        # quick C17: the six base buffer configurations are enough for the NESN logic; thorough uses the full grid
        grid = 1 if (mic and tier == "quick") else 0
        runs.append(Run(b, ["--seed=%d" % seed, "--mic=%d" % (1 if mic else 0), "--k=%d" % k, "--kbig=%d" % kbig, "--ops=%d" % ops, "--grid=%d" % grid,
                            "--parts=%d" % PARTS, "--part=%d" % p], timeout=600 if tier == "quick" else 3400, env=ENV))
    return runs


def plan_c15(tier, seed):
    return plan_llbuf(tier, seed, False)


def plan_c17(tier, seed):
    return plan_llbuf(tier, seed, True)


GRID = ("ll_data_pdu_buffer<TX,RX> for (29,29) (61,61) (100,100) (40,58) (29,256) (256,29) (512,512) with the default layout and "
        "(30,30) (61,61) (100,100) (59,40) (256,256) (520,520) with nrf_details::encrypted_pdu_layout, each with max_rx/tx_size 29 and "
        "min(251, maximum), link plain and encrypted (MIC emulated by packet counter stamps)")

ROUTING = ("radio glue routes per PDU outcomes as nrf52.hpp radio_interrupt_handler does: nothing received -> nothing sent; CRC error or "
           "no receive buffer -> next_transmit(); CRC ok + MIC ok -> received(); CRC ok + MIC bad -> acknowledge(). Family E "
           "exercises the real ISR; here the routing is re-stated by the harness")

SPECS = [
    Spec("C15", "fault_enumeration",
         rule="for every buffer/layout/size/encryption configuration and 9 deterministic traffic shapes (idle, central data, slow "
              "consumer, peripheral data, both, alternating, commit after an empty PDU went out, bursts, reserved-LLID mix) ALL 7^k per-event outcome "
              "patterns (central->peripheral lost | {crc, ok} x peripheral->central {ok, lost, crc}) of the first k connection events are "
              "enumerated (k=4 quick; thorough 6 for the 29/61/100 byte buffers, 5 for the others), followed by a fault free drain; plus seeded random runs of 200 events with six loss "
              "profiles, random traffic, random upper-layer consumption and a central that sometimes NAKs for flow control. The central "
              "is an independent Core Vol 6 Part B 4.5.9 implementation; every payload has a unique id. Checked per event: retransmit "
              "until acknowledged (same PDU, same SN), in-order transmission, a PDU is only dropped from the transmit side after the "
              "central accepted it, NESN never acknowledges a non-empty PDU that was not handed to received(), buffers handed out never "
              "overlap live PDUs; per run: upper layer and central each get exactly the sent sequence, once, in order, bytes intact, and "
              "everything is delivered after the drain. distinct_nontrivial = distinct (outcome pair, routing, empty/data, new/retransmitted, "
              "first acceptance, must-retransmit, ack reached peripheral, transmit backlog class, receive backlog class, layout, encryption, "
              "central busy) of events that involve a fault, a data PDU or a retransmission.",
         plan=plan_c15,
         floor={"min_evaluations": 2000000, "min_distinct": 2500,
                "classes": ["c2p_new_data_received", "c2p_retransmitted_data_received", "c2p_retransmitted_empty_received", "c2p_new_empty_received",
                            "c2p_crc_error", "c2p_lost", "c2p_dropped_no_receive_buffer", "c2p_mic_failure_on_retransmission",
                            "p2c_ok", "p2c_lost", "p2c_crc_error", "tx_new_data", "tx_new_empty", "tx_retransmit_data", "tx_retransmit_empty",
                            "ack_for_data_reached_peripheral", "ack_for_empty_reached_peripheral", "delivered_to_upper_layer",
                            "central_accepted_data", "central_ignored_retransmitted_data", "central_ignored_retransmitted_empty",
                            "central_data_acknowledged", "central_busy_nak", "commit", "commit_while_empty_pdu_unacknowledged",
                            "tx_alloc_no_memory", "run_completed_everything_delivered",
                            "c2p_reserved_llid_pdu_received", "c2p_reserved_llid_pdu_retransmission_received",
                            "upper_layer_took_pdu_while_radio_owned_receive_buffer", "commit_finished_after_radio_interrupt"],
                "counters": {"enumerated_patterns": 500000, "config_shape_combinations": 300}},
         assumptions=[GRID, ROUTING,
                      "one PDU per direction per connection event (the nRF52 binding never continues an event; MD is ignored)",
                      "about 1 in 5 of the central's data PDUs (every second one in the shape reserved_llid_mix, 8% in random runs) carries the reserved "
                      "LLID 0b00 with a non-zero length: it must never reach the upper layer; whether it is acknowledged is not judged",
                      "stop_ll_pdu_buffer() is not part of the workload",
                      "link layer / radio interrupt interleavings: in some shapes and a third of the random events the upper layer frees PDUs after the "
                      "radio got its next receive buffer and before the interrupt is served, and the link layer assembles a PDU in an allocated "
                      "transmit buffer while an interrupt acknowledges others; memory handed out must not be modified by the buffer meanwhile",
                      "bounded progress is part of the oracle: after the enumerated/random part a fault free drain of (backlog + 5) events "
                      "with an idle upper layer must deliver everything (keys C15:progress:*)"],
         crash_owner=False, design_ref="4/C15", technique="independent 4.5.9 central + lossy channel, exhaustive outcome patterns for k events + random runs, ASan/UBSan"),

    Spec("C16", "fault_enumeration",
         rule="same runs as C15. After every radio interface call the number of increment_receive_packet_counter / "
              "increment_transmit_packet_counter calls is compared with the expectation derived from what was fed in: receive +1 exactly "
              "when a non-empty PDU is handed to received() for the first time, transmit +1 exactly when a header whose NESN acknowledges "
              "the outstanding non-empty PDU is handed to received()/acknowledge(); 0 otherwise (retransmissions, empty PDUs, CRC errors, "
              "no receive buffer, MIC failed retransmissions). A non-empty PDU with the reserved LLID 0 uses up its nonce when it is "
              "acknowledged: receive +1 exactly with the first response whose NESN acknowledges it. End to end: every non-empty PDU is stamped with the sender's counter at first "
              "transmission and must meet an equal counter at the receiver (nonce neither skipped nor reused); conservation of all four "
              "counters after the drain. distinct_nontrivial = distinct (routing, empty/data, new/retransmitted, already accepted, outstanding "
              "kind, ack reached peripheral, observed increments, encryption, layout) of events involving a non-empty PDU or a retransmission.",
         plan=plan_c15,
         floor={"min_evaluations": 1000000, "min_distinct": 100,
                "classes": ["rx_new_data_increment", "rx_retransmitted_data_no_increment", "rx_new_empty_no_increment",
                            "rx_retransmitted_empty_no_increment", "rx_crc_error_no_increment", "rx_no_buffer_no_increment",
                            "rx_mic_failed_retransmission_no_increment", "tx_data_acknowledged_increment",
                            "tx_data_not_acknowledged_no_increment", "tx_empty_acknowledged_no_increment", "tx_empty_not_acknowledged",
                            "rx_reserved_llid_acknowledged_increment", "rx_reserved_llid_retransmission_no_increment",
                            "rx_reserved_llid_not_received_no_increment"],
                "counters": {"enumerated_patterns": 500000, "config_shape_combinations": 300}},
         assumptions=[GRID, ROUTING,
                      "counter::increment of nrf52.cpp (39 bit carry) is family E's part of C16; here the calls are counted",
                      "reserved LLID 0b00 (Core Vol 6 Part B 2.4), non-zero length: the counter expectation is tied to the acknowledgement "
                      "(the central advances its packet counter when it sees the ack), not to the mere reception; a peripheral that never "
                      "acknowledges such a PDU is not judged; a MIC-failed PDU with the reserved LLID may be ignored as a whole"],
         crash_owner=False, design_ref="4/C16", technique="call counting against fed-in events + counter stamps end to end, same exhaustive/random runs as C15"),

    Spec("C17", "fault_enumeration",
         rule="encrypted link only; the outcome alphabet gets a fourth central->peripheral outcome 'CRC ok, MIC bad' (10 codes per "
              "event); ALL 10^k patterns of the first k events (k=4 quick on the 29/61/100 byte buffers; thorough 5 on those, 4 on the full grid) that contain at least one MIC fault are enumerated "
              "for 6 traffic shapes with central data, plus random runs with 3%/15% MIC faults. A MIC failure hits new PDUs, "
              "retransmissions of delivered PDUs (these also fail inherently because the receive counter advanced), PDUs carrying an "
              "acknowledgement for the peripheral's data. Oracle: the response to (and any later PDU after) a new non-empty PDU whose MIC "
              "failed must keep NESN equal to that PDU's SN until the PDU has been handed to received(); the usual exactly-once delivery "
              "checks run on top. distinct_nontrivial = distinct (new/retransmission, injected/inherent, outstanding kind, ack carried, "
              "event index up to 6, NESN relation, response outcome, layout) of MIC failure events.",
         plan=plan_c17,
         floor={"min_evaluations": 500000, "min_distinct": 60,
                "classes": ["c2p_mic_failure_on_new_pdu", "c2p_mic_failure_on_retransmission", "mic_failed_new_pdu",
                            "mic_failed_new_pdu_carrying_ack_for_peripheral", "mic_failed_retransmission_of_delivered_pdu",
                            "delivered_to_upper_layer", "tx_retransmit_data"],
                "counters": {"enumerated_patterns": 300000, "config_shape_combinations": 60}},
         assumptions=[GRID, ROUTING,
                      "empty PDUs carry no MIC: the radio never reports a MIC failure for them, so a MIC fault on an empty PDU is delivered as ok",
                      "in MIC-fault runs every finding is filed under C17; a receive allocation that fails on an empty receive buffer (C15/C18 "
                      "finding) is only counted there",
                      "the E-dependent clause (the real radio_interrupt_handler producing this routing from CRCSTATUS/MICSTATUS) belongs to family E"],
         crash_owner=False, design_ref="4/C17", technique="MIC fault at every position of every enumerated pattern, wire-level NESN check + exactly-once delivery"),

    Spec("C18", "exploration",
         rule="pdu_ring_buffer<Size, read_buffer, Layout> on an exact-size heap block for Size in {12,27,29,50,61,100,255,300} (default "
              "layout) and {13,30,31,50,61,100,256,300} (nRF encrypted layout). Iterative-deepening exhaustive DFS (snapshot/restore of "
              "ring object and storage) over the alphabet {allocate+commit with 4 payload classes, allocate maximum + commit short (2), "
              "pop, allocate-only (2), commit the held allocation} to depth 6 (quick) / 8 (thorough), then random histories biased to "
              "the allocator's boundaries. After every operation: next_end() pointer/size, more_than_one(), bytes of every live PDU, and "
              "alloc_front() probes at the reference allocator's limits (limit, limit+-1) checked for success/failure, idempotence, "
              "bounds and overlap with live PDUs; layout functions against the independent expectation (2 or 3 byte overhead, body "
              "offset, little endian header). distinct_nontrivial = distinct (config, number of live PDUs up to 4, reference fit class, "
              "outcome, payload class, exact/over-sized request, split state, free space classes) of allocations, pops and held commits.",
         plan=plan_c18,
         floor={"min_evaluations": 3000000, "min_distinct": 3000,
                "classes": ["alloc_behind_newest", "alloc_wrapped_to_beginning", "alloc_in_split_gap", "alloc_on_empty_at_start",
                            "alloc_held", "commit_held_plain", "commit_held_after_pop", "commit_held_after_pop_to_empty",
                            "pop_plain", "pop_then_wrap", "pop_to_empty", "push_rejected_full", "push_shorter_than_allocated",
                            "push_ends_exactly_at_storage_end", "push_leaves_one_byte_at_storage_end",
                            "probe_fit_behind_newest", "probe_fit_at_beginning", "probe_fit_split_gap", "probe_fit_empty_ring", "probe_no_fit"],
                "counters": {"configurations": 16, "exhaustive_nodes": 100000}},
         assumptions=["documented preconditions are respected: payload length 1..251 (length 0 is the ring's wrap mark), requested size > "
                      "Layout::data_channel_pdu_memory_size(0), pop only when a PDU is stored, one outstanding allocation at a time",
                      "an allocation of exactly Size bytes on an empty ring is not specified by the documentation and not judged",
                      "writes outside the storage are caught by ASan red zones around the exact-size heap block (a jump > red zone is invisible)"],
         crash_owner=True, design_ref="4/C18", technique="reference deque + reference allocator, bounded exhaustive DFS + boundary-biased random, ASan/UBSan"),
]
