"""Family "conc": C12 (notification_queue is a fair priority queue, sequential), C13 (notification requests from an
interrupt / another thread are neither lost nor duplicated, interleavings), C30 (details::ring is a lossless SPSC FIFO
under any interleaving).  Harnesses in harness/conc/."""
import os
from vlib.core import Build, Run, Spec, REPO

H = "harness/conc/"


# ------------------------------------------------------------------------------------------------ C12
def plan_c12(tier, seed):
    # four binaries (a quarter of the template instantiations each) so that the cold build is parallel
    builds = [Build("queue_seq_g%d" % g, [H + "queue_seq_harness.cpp"], flags=["-DSEQ_GROUP=%d" % g]) for g in range(4)]
    runs = []
    if tier == "quick":
        depth, ddepth, ops, nsh = 5, 4, 60000, 4
    else:
        depth, ddepth, ops, nsh = 7, 6, 2000000, 8
    for g, b in enumerate(builds):
        for sh in range(nsh):
            runs.append(Run(b, ["--seed=%d" % (seed * 100 + g * 10 + sh), "--depth=%d" % depth, "--ddepth=%d" % ddepth,
                                "--ops=%d" % ops, "--shard=%d" % sh, "--nshards=%d" % nsh], timeout=3000))
    return runs


# ------------------------------------------------------------------------------------------------ C13
C13_PARTS = ["5", "4", "1,3", "5,1", "2,2", "2", "1,1", "1"]
C13_PARTS_QUICK = ["5", "4", "1,3", "2", "1"]        # one binary per partition: the quick tier builds five of them
# relative cost of the exhaustive thread mode per partition -> number of sub-shards of the pre-state space
C13_SUBS_QUICK = {"5": 4, "4": 3, "1,3": 2, "5,1": 4, "2,2": 2, "2": 1, "1,1": 1, "1": 1}
C13_SUBS_THOROUGH = {"5": 16, "4": 10, "1,3": 8, "5,1": 16, "2,2": 6, "2": 2, "1,1": 1, "1": 1}


def tsan_build():
    return Build("conc_tsan_stress", [H + "conc_tsan_stress.cpp"], sanitizer="tsan", hooks=False, libs=["-pthread"])


def plan_c13(tier, seed):
    runs = []
    quick = tier == "quick"
    builds = dict((p, Build("queue_conc_" + p.replace(",", "_"), [H + "queue_conc_harness.cpp"], flags=["-DCONC_PART=" + p], libs=["-pthread"]))
                  for p in C13_PARTS)
    for p in (C13_PARTS_QUICK if quick else C13_PARTS):
        b = builds[p]
        # interrupt mode: complete for <= 3 pending entries in both tiers (cheap)
        runs.append(Run(b, ["--seed=%d" % seed, "--mode=isr", "--maxpend=3"], timeout=3000))
        # thread mode: all interleavings of one dequeue with one queue operation
        subs = (C13_SUBS_QUICK if quick else C13_SUBS_THOROUGH)[p]
        for s in range(subs):
            runs.append(Run(b, ["--seed=%d" % seed, "--mode=thread", "--tmaxpend=%d" % (1 if quick else 3), "--sub=%d" % s, "--nsub=%d" % subs],
                            timeout=3000))
        # longer histories, random schedules
        for k in range(1 if quick else 6):
            runs.append(Run(b, ["--seed=%d" % (seed * 1000 + k), "--mode=random", "--schedules=%d" % (2500 if quick else 20000)], timeout=3000))
    t = tsan_build()
    for k in range(1 if quick else 4):
        runs.append(Run(t, ["--what=queue", "--seed=%d" % (seed * 10 + k), "--ops=%d" % (400000 if quick else 2000000)], timeout=3000))
    # the expensive thread-mode runs first
    runs.sort(key=lambda r: 0 if "--mode=thread" in r.args else 1)
    return runs


# ------------------------------------------------------------------------------------------------ C30
def plan_c30(tier, seed):
    runs = []
    quick = tier == "quick"
    for cap in (1, 2, 4):
        b = Build("ring_conc_cap%d" % cap, [H + "ring_conc_harness.cpp"], flags=["-DRING_CAP=%d" % cap], libs=["-pthread"])
        nstates = (cap + 1) * (cap + 1)          # pointer offset x fill level

        def thread_runs(extra, take):
            # the pre-states are dealt round-robin to `nstates` sub-shards; thorough runs all of them, quick runs `take`
            # of them (rotated by the seed)
            subs = range(nstates) if not quick else sorted(set((seed + k * max(1, nstates // take)) % nstates for k in range(take)))
            for s_ in subs:
                runs.append(Run(b, ["--seed=%d" % seed, "--mode=thread"] + extra + ["--sub=%d" % s_, "--nsub=%d" % nstates], timeout=3000))

        runs.append(Run(b, ["--seed=%d" % seed, "--mode=isr"], timeout=3000))
        # all interleavings, 3-word element with a yield before every word
        runs.append(Run(b, ["--seed=%d" % seed, "--mode=thread", "--np=1", "--nc=1"], timeout=3000))
        thread_runs(["--np=2", "--nc=1"], {1: 2, 2: 2, 4: 1}[cap])
        thread_runs(["--np=1", "--nc=2"], {1: 2, 2: 2, 4: 1}[cap])
        # 2 pushes || 2 pops with a one-word element (4 accesses per operation)
        thread_runs(["--elem1", "--np=2", "--nc=2"], {1: 4, 2: 3, 4: 1}[cap])
        for k in range(1 if quick else 5):
            runs.append(Run(b, ["--seed=%d" % (seed * 1000 + k), "--mode=random", "--schedules=%d" % (2000 if quick else 30000)], timeout=3000))
    t = tsan_build()
    for k in range(1 if quick else 4):
        runs.append(Run(t, ["--what=ring", "--seed=%d" % (seed * 10 + k), "--ops=%d" % (300000 if quick else 3000000)], timeout=3000))
    runs.sort(key=lambda r: 0 if "--mode=thread" in r.args else 1)
    return runs


SPECS = [
    Spec("C12", "exploration",
         rule="partitions <1> <2> <4> <5> <9> <17> <1,1> <1,3> <3,1> <2,1,3> <1,1,1> <5,1> <1,8>: every history over {queue_notification, "
              "queue_indication} x 3 characteristics + dequeue + indication_confirmed + clear up to the stated depth is executed on copies "
              "of the real notification_queue (3 alphabets of characteristics per partition: first of each level, last ones, seed chosen), "
              "each leaf is drained, then long random histories; every return value / dequeue result is judged against the set of pending "
              "(characteristic, kind) requests (newly-queued iff not pending, dequeued entry pending, empty only if nothing eligible, no "
              "lower level before an eligible higher one, no same-level entry dequeued twice while another is pending and eligible, "
              "indications not eligible while unconfirmed); plus a model-free differential run of 9 partition pairs (single-entry levels "
              "vs. the same levels widened by never-used entries).  distinct_nontrivial = distinct (partition, pending set, outstanding "
              "flag, operation, outcome) with a non-empty pending set or a queue operation.",
         plan=plan_c12,
         floor={"min_evaluations": 1000000, "min_distinct": 20000,
                "classes": ["qn_new", "qn_pending", "qi_new", "qi_pending", "qi_new_while_unconfirmed", "queue_both_kinds_same_char",
                            "queue_on_single_entry_level", "deq_notification", "deq_indication", "deq_empty_nothing_pending",
                            "deq_empty_indications_blocked", "deq_priority_choice", "deq_round_robin_choice",
                            "deq_skips_blocked_indication", "confirm_outstanding", "confirm_idle", "clear_nonempty", "clear_empty",
                            "drain", "differential_op"],
                "counters": {"exhaustive_histories": 100000, "random_ops": 100000, "differential_pairs": 9, "differential_exhaustive_histories": 10000}},
         assumptions=["'within one round' is read as: while a request is pending and eligible no other (characteristic, kind) request of the "
                      "same priority level is dequeued twice; an indication is not eligible while a confirmation is outstanding and its "
                      "round restarts when it becomes eligible again",
                      "exhaustive only up to the stated history depth over 3 characteristics per alphabet; beyond that random histories"],
         crash_owner=True, design_ref="4/C12", technique="reference-model monitor (pending set + fairness windows) over exhaustive+random histories, differential partitions, ASan/UBSan"),

    Spec("C13", "exploration",
         rule="hook H1 makes every load/store of the queue bytes / single-entry state a yield point.  isr: for every pre-state (pending "
              "sets of <=3 entries x confirmation outstanding x round-robin cursor rotation) of <5> <4> <1,3> <5,1> <2,2> <2> <1,1> <1>, "
              "every producer operation (queue_notification/queue_indication of every characteristic) is run to completion at every "
              "yield point of dequeue_indication_or_confirmation; thread: two real threads + baton, all interleavings of one dequeue "
              "with one producer operation; random: 2..6 dequeues/confirms against 2..6 producer operations under random schedules; "
              "after each schedule the queue is drained and the history is checked for linearizability against the pending set per "
              "entry (accepted request dequeued exactly once more, false only if pending during the call).  A schedule is one "
              "(pre-state, producer operation, interleaving); distinct_nontrivial = distinct (partition, pre-state, operation, "
              "schedule, outcome) in which one side really ran between two shared accesses of the other.  Classes named preempt:* "
              "list the distinct (access about to be performed, byte offset, byte value) states at a context switch.  TSan stress: "
              "free running producer/consumer threads on the unhooked type, accepted vs dequeued counted per entry.",
         plan=plan_c13,
         floor={"min_evaluations": 200000, "min_distinct": 20000,
                "classes": ["producer_queue_indication", "producer_queue_notification", "producer_entry_already_pending",
                            "producer_entry_not_pending", "dequeue_returns_empty", "dequeue_returns_pre_state_entry",
                            "dequeue_returns_the_concurrent_request", "same_byte", "different_byte_or_level", "confirmation_outstanding",
                            "single_entry_level", "interrupt_between_load_and_store", "interrupt_before_load", "interrupt_before_store",
                            "producer_store_inside_consumer_rmw", "consumer_store_inside_producer_rmw", "random_history", "parallel_stress"],
                "counters": {"schedules_isr": 100000, "schedules_isr_overlapping": 50000, "schedules_thread_exhaustive": 100000,
                             "schedules_thread_exhaustive_interleaved": 50000, "schedules_thread_random": 10000,
                             "yield_points_hit": 1000000, "stress_requests_accepted": 1000}},
         assumptions=["producer and consumer are driven directly on notification_queue (what link_layer::queue_lcap_notification and "
                      "server::l2cap_output call); the end-to-end path through link_layer is family C's",
                      "sequentially consistent interleavings only (baton); weaker memory orders only through TSan's happens-before analysis",
                      "one producer and one consumer, as in the property's quantifier; indication_confirmed runs in the consumer's context"],
         crash_owner=True, design_ref="4/C13", technique="deterministic scheduler (interrupt injection + baton threads) at single-access granularity, per-entry linearizability check, TSan stress"),

    Spec("C30", "exploration",
         rule="hook H2 makes every load/store of read_ptr_/write_ptr_ a yield point; elements are 3-word structs whose copy yields before "
              "every word.  Capacities 1, 2, 4; pre-states = pointer offset x fill level.  isr: 1..2 operations of one side run to "
              "completion at every yield point of 1..2 operations of the other side, both directions; thread: two real threads + baton, "
              "all interleavings of 1 push||1 pop, 2||1, 1||2 (3-word element) and 2||2 (1-word element); random: longer histories with "
              "wrap-around under random schedules; each history (with a sequential drain) is checked against a FIFO with call/return "
              "stamps: k-th pop = k-th successful push, complete, not before pushed; pop fails only if the next push had not returned; "
              "push fails only if `capacity` elements can have been present; push succeeds only if not full.  distinct_nontrivial = "
              "distinct (capacity, pre-state, operation counts, schedule, outcome) with real overlap.  Classes preempt:* list the "
              "distinct (side, access kind, which variable, pointer value, pre-state) states at a context switch.  TSan stress on the "
              "unhooked ring: order/integrity and any data race report on the ring object.",
         plan=plan_c30,
         floor={"min_evaluations": 100000, "min_distinct": 10000,
                "classes": ["push_ok", "push_full", "pop_ok", "pop_empty", "start_empty", "start_full", "start_partial", "wrap_around",
                            "producer_interrupts_consumer", "consumer_interrupts_producer", "thread_exhaustive_1push_1pop_elem3",
                            "thread_exhaustive_2push_1pop_elem3", "thread_exhaustive_1push_2pop_elem3", "thread_exhaustive_2push_2pop_elem1",
                            "random_history", "parallel_stress", "parallel_stress_ring_was_full", "parallel_stress_ring_was_empty"],
                "counters": {"schedules_isr": 1000, "schedules_thread_exhaustive": 30000, "schedules_thread_random": 5000,
                             "yield_points_hit": 500000, "stress_elements": 100000}},
         assumptions=["sequentially consistent interleavings only (baton); weaker orderings only through TSan's happens-before analysis on x86",
                      "the quick tier enumerates the 2||1, 1||2 and 2||2 interleavings for a seed-rotated subset of the pre-states (capacity 1: 2-4 of 4, capacity 2: 2-3 of 9, capacity 4: 1 of 25); thorough enumerates all pre-states"],
         crash_owner=True, design_ref="4/C30", technique="deterministic scheduler (interrupt injection + baton threads) over atomic load/store steps, FIFO linearizability check, TSan stress"),
]
