"""L2CAP family: C19 (fragmentation / reassembly in ll_l2cap_sdu_buffer) and C31 (channel multiplexer
details::l2cap<> and the signaling channel)."""
from vlib.core import Build, Run, Spec

SDU_SRC = ["harness/l2cap/sdu_harness.cpp"]
MUX_SRC = ["harness/l2cap/mux_harness.cpp"]

# one build per MTU group so that the four translation units compile in parallel
SDU_GROUPS = {1: "mtu23", 2: "mtu30", 3: "mtu65", 4: "mtu247"}
# harness modes: 0 outgoing only, 1 incoming well-formed, 2 incoming hostile, 3 everything mixed
SDU_MODES = (0, 1, 2, 3)


def sdu_builds():
    return dict((g, Build("sdu_" + n, SDU_SRC, flags=["-DSDU_GROUP=%d" % g])) for g, n in SDU_GROUPS.items())


def plan_c19(tier, seed):
    b = sdu_builds()
    runs = []
    if tier == "quick":
        for g in sorted(b):
            for m in SDU_MODES:
                runs.append(Run(b[g], ["--seed=%d" % (seed * 100 + m), "--mode=%d" % m, "--cases=1500", "--ops=40"],
                                timeout=600, skippable=True))
        return runs
    # thorough: 4 groups x 4 modes x 3 seeds = 48 runs, longer cases as well
    for g in sorted(b):
        for m in SDU_MODES:
            for k in range(3):
                ops = (40, 120, 400)[k]
                cases = (20000, 8000, 2500)[k]
                runs.append(Run(b[g], ["--seed=%d" % (seed * 1000 + 10 * k + m), "--mode=%d" % m, "--cases=%d" % cases,
                                       "--ops=%d" % ops], timeout=3000, skippable=True))
    return runs


def plan_c31(tier, seed):
    # one binary: the cost of the translation unit is dominated by what all parts share
    b = Build("mux", MUX_SRC)
    runs = []
    if tier == "quick":
        for k in range(16):
            runs.append(Run(b, ["--seed=%d" % (seed * 100 + k), "--cases=100", "--ops=120"], timeout=600, skippable=True))
        return runs
    for k in range(32):
        runs.append(Run(b, ["--seed=%d" % (seed * 1000 + k), "--cases=%d" % (3000 if k % 2 == 0 else 800),
                            "--ops=%d" % (120 if k % 2 == 0 else 500)], timeout=3000, skippable=True))
    return runs


SPECS = [
    Spec("C19", "exploration",
         rule="cases are PRNG-generated histories against a fresh ll_l2cap_sdu_buffer<ll_data_pdu_buffer<..>> (MTU 23 "
              "specialisation, 30, 65, 247; default layout and a layout with one octet between header and body; rings "
              "64..100 octets with the maximum fixed near 29 and rings of 520 octets with max_tx_size/max_rx_size changed "
              "between 29 and 251 at run time). A simulated central with a correct SN/NESN machine sends start fragments "
              "(announced length 0, 1, fits, MTU-1, MTU, MTU+1, 0xFFFF, random; body shorter than the L2CAP header, exact, "
              "fragmented, overlong), continuations (exact, short, overlong, without start), repeated starts, LL control "
              "PDUs between fragments, empty PDUs and reserved LLIDs, interleaved with correctly fragmented SDUs; the host "
              "commits SDUs (length 0, one-PDU, one-PDU+1, MTU-1, MTU) and LL control PDUs as link_layer.hpp does. Every "
              "buffer handed to the host is compared with the messages a reference reassembler completes from the recorded "
              "fragment stream; every PDU the central receives is checked by a trace checker against the committed SDUs and "
              "every committed fragment against max_tx_size() at that moment; ASan decides memory safety (guarded "
              "reassembly/transmit arrays). distinct_nontrivial = distinct (configuration, reassembly open?, LLID and size "
              "class of the last fragment, remaining-length relation, delivered LLID, fragments in the delivered SDU, "
              "full-MTU/empty SDU) for deliveries and (configuration, SDU size/8, max_tx_size/16, fragments committed at "
              "once) for outgoing SDUs.",
         plan=plan_c19,
         floor={"min_evaluations": 200000, "min_distinct": 1500,
                "classes": ["rx_start_complete", "rx_start_fragmented", "rx_start_overlong", "rx_start_shorter_than_header",
                            "rx_start_announces_more_than_mtu", "rx_start_announces_mtu", "rx_start_while_reassembling",
                            "rx_continuation_exact", "rx_continuation_partial", "rx_continuation_overlong",
                            "rx_continuation_without_start", "rx_control_pdu_interleaved", "rx_empty_or_reserved_pdu",
                            "rx_delivered_reassembled", "rx_delivered_single_pdu", "rx_control_pdu_delivered",
                            "rx_max_changed", "rx_ring_full",
                            "tx_sdu_fits_one_pdu", "tx_sdu_needs_fragmentation", "tx_sdu_sent_in_several_fragments",
                            "tx_sdu_len0", "tx_sdu_full_mtu", "tx_allocate_busy", "tx_resumed_after_ring_full",
                            "tx_control_pdu_while_sdu_pending", "tx_max_changed_mid_sdu"],
                "counters": {"tx_sdus_sent_in_several_fragments": 2000, "rx_sdus_delivered": 5000, "cases": 20000}},
         assumptions=["the central respects max_rx_size() (a radio cannot receive more than the buffer it was given) and the "
                      "channel is lossless; loss and retransmission are C15's subject",
                      "max_tx_size/max_rx_size are only set to values for which an empty ring can always hold one PDU "
                      "(ring >= 2 x (max + layout overhead)); smaller rings are C18's subject",
                      "the second layout is a harness type of the same shape as nrf_details::encrypted_pdu_layout (one octet "
                      "between header and body); the nRF header itself needs the register file and is not included",
                      "overflows that jump over the 512 octet guard zones are invisible to ASan (a fragment has at most 251 octets)"],
         crash_owner=True, design_ref="4/C19",
         technique="reference reassembler + air trace checker + ASan on guarded arrays, hostile fragment streams"),
    Spec("C31", "exploration",
         rule="multiplexer: PRNG-generated frames (CID 4/5/6, neighbours, 0, 0xFFFF, values equal to a configured CID in one "
              "octet only; payload sizes 0, 1, 23, MTU, MTU+1, random; length field equal, +1, -1, 0, 0xFFFF, +256; "
              "truncated headers) are fed to three instantiations of details::l2cap<> with recording mock channels "
              "(and the real signaling channel in two of them) through exact-size heap buffers, with and without an "
              "output buffer available, with replies of 0..capacity octets; unsolicited output is queued on the channels "
              "and collected with 0..64 buffers. Signaling: stand-alone signaling_channel<> and the one behind the "
              "multiplexer are driven with queue/output/input operations (codes 0..0x20 and random, identifier 0, the "
              "outstanding one, +-1, random; length fields right and wrong; truncated commands; > 255 completed requests "
              "for the identifier wrap) against a reference automaton, the real state being observed on a copy of the "
              "object. distinct_nontrivial = distinct (configuration, CID class, length-field class, payload size class, "
              "buffer available, deliveries, commits) and (automaton state, code class, identifier class, length class, "
              "reply/no reply, state afterwards) and emitted identifiers.",
         plan=plan_c31,
         floor={"min_evaluations": 50000, "min_distinct": 700,
                "classes": ["mux_frame_to_mock_channel", "mux_frame_to_signaling", "mux_frame_without_header",
                            "mux_length_field_mismatch", "mux_length_equal_modulo_256", "mux_unknown_cid",
                            "mux_not_consumed_no_buffer", "mux_no_reply", "mux_reply", "mux_reply_fills_buffer",
                            "mux_unsolicited_output", "mux_output_waits_for_buffer",
                            "sig_request_queued", "sig_request_refused_pending", "sig_request_emitted",
                            "sig_output_nothing_pending", "sig_matching_response", "sig_response_identifier_mismatch",
                            "sig_response_without_request", "sig_command_identifier_zero", "sig_command_without_identifier",
                            "sig_other_command", "sig_connection_parameter_update_request_received",
                            "sig_identifier_wrapped_255", "sig_via_multiplexer", "sig_request_via_multiplexer"],
                "counters": {"sig_requests_completed": 2000, "sig_identifier_wraps": 1}},
         assumptions=["the link layer mock hands out what link_layer.hpp hands out: room for the requested payload plus the "
                      "4 octet L2CAP header (sometimes more); an allocator that returns exactly the requested size (as the "
                      "mock in tests/l2cap_tests.cpp does) is not modelled, the interface comment does not decide it",
                      "responses with the right identifier but a wrong length, responses that match nothing and malformed "
                      "commands may be answered by silence or by a Command Reject; only their effect on the state is judged",
                      "mock channels never claim more than the capacity they were offered"],
         crash_owner=True, design_ref="4/C31",
         technique="frame predicate + signaling reference automaton (state observed on object copies), exact-size buffers under ASan"),
]
