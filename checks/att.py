"""Family A: GATT/ATT declaration family. One harness binary per generated declaration feeds the monitors of
C01-C11 and C14; every check builds and runs the same binaries (cached) and reads its own property's lines."""
import hashlib
import os
from vlib.core import Build, Run, Spec, VERIF
from vlib import declgen, decls

GEN_DIR = os.path.join(VERIF, "build", "gen")


def _decl_header(d, seed):
    text = declgen.emit(d, seed)
    h = hashlib.sha256(text.encode()).hexdigest()[:16]
    os.makedirs(GEN_DIR, exist_ok=True)
    path = os.path.join(GEN_DIR, "decl_%s_%s.hpp" % (d["name"], h))
    if not os.path.exists(path):
        with open(path + ".tmp", "w") as f:
            f.write(text)
        os.replace(path + ".tmp", path)
    return path, h


def declarations(tier, seed):
    ds = decls.curated()
    n_random = 4 if tier == "quick" else 50
    for i in range(n_random):
        ds.append(decls.random_decl(seed, i))
    only = os.environ.get("VERIF_ATT_DECLS")      # self-test aid: restrict to some declarations (coverage floors will not be met)
    if only:
        ds = [d for d in ds if d["name"] in only.split(",")]
    return ds


def plan(tier, seed):
    runs = []
    ops = 12000 if tier == "quick" else 120000
    for d in declarations(tier, seed):
        path, h = _decl_header(d, seed)
        b = Build("att_" + d["name"], ["harness/att/att_harness.cpp"], flags=['-DDECL_HEADER="%s"' % path], extra_key=h,
                  mem_limit_kb=5 * 1024 * 1024, opt="-O0" if tier == "quick" else "-O1")
        runs.append(Run(b, ["--seed=%d" % seed, "--ops=%d" % ops], timeout=2400, skippable=True, tag="att %s max" % d["name"]))
        if tier == "thorough" or d["name"] in ("long_values_65", "queue_targets", "encryption_matrix", "many_cccd", "small_queue"):
            runs.append(Run(b, ["--seed=%d" % (seed + 7919), "--ops=%d" % (ops // 2), "--exact=1"], timeout=2400, skippable=True,
                            tag="att %s exact" % d["name"]))
    return runs


GEN_RULE = ("declarations: 16 curated shapes (fixed handles with gaps, adjacent services, primary/secondary with includes, every "
            "encryption option placement, 10 CCCDs, priorities, write queue targets, long values, advertising options, interleaved "
            "16/128 bit types, no GAP service) + seeded random declarations (4 quick / 50 thorough); each compiled from /repo with "
            "ASan+UBSan and driven with a seeded history of ATT PDUs (grammar aware generator biased to existing handles +-1, gaps, 0, "
            "0xFFFF, value size +-1, MTU), security changes, notification requests, polls, confirmations and reconnects on 3 connections; "
            "output buffers are exact-size heap blocks (server maximum MTU, and negotiated MTU in a second run). ")

A_ASSUME = ["the expected attribute database is computed by vlib/declgen.py from the declaration by GATT rules and the Bluetoe "
            "documentation; handler-backed characteristics use harness-defined handlers with fixed-size storage",
            "three connections share one server through a mock of the link layer's 12-line notification callback "
            "(the real callback is exercised by the link layer families)",
            "template instantiations are sampled, not enumerated"]


def spec(prop, level, what, floor, technique, crash_owner=False):
    return Spec(prop, level, rule=GEN_RULE + what, plan=plan, floor=floor, assumptions=A_ASSUME, crash_owner=crash_owner,
                design_ref="DESIGN.md 3.A / 4." + prop, technique=technique)


SPECS = [
    spec("C01", "exploration", "C01: every response is checked against the ATT framing table (request -> response opcode or error naming "
         "it; commands/confirmations/notifications/error responses -> nothing), its length against the modelled negotiated MTU and the "
         "buffer; ASan/UBSan decide memory safety. distinct_nontrivial = distinct (declaration, request opcode, response class, error "
         "code, security state, request length class).",
         {"min_evaluations": 50000, "min_distinct": 300, "classes": ["op_request", "op_command", "op_error_rsp", "op_notification", "op_confirmation", "op_other"]},
         "ASan/UBSan + framing/MTU monitor over generated declarations", crash_owner=True),
    spec("C02", "exploration", "C02: for Find Information / Read By Type / Read By Group Type the model computes the set M of in-range "
         "matching attributes; the response must be the leading part of M (nothing skipped, ascending, right type), Attribute Not Found "
         "iff M is empty; complete iteration procedures must enumerate M exactly once.",
         {"min_evaluations": 5000, "min_distinct": 200, "classes": ["findinfo_range_attr_gap", "findinfo_range_gap_attr", "rbt_match", "rbt_no_match", "iterate_findinfo", "iterate_read_by_type", "rbgt_range_attr_gap", "range_sweep"]},
         "reference-model monitor (attribute set in range) + GATT iteration procedures"),
    spec("C03", "exploration", "C03: Read By Group Type and Find By Type Value for Primary Service against the model's service list "
         "(kind, uuid, first/last handle); complete discovery procedures per service uuid.",
         {"min_evaluations": 3000, "min_distinct": 60, "classes": ["rbgt_primary", "fbtv_match", "fbtv_no_match", "iterate_primary_services", "iterate_by_uuid_primary", "iterate_by_uuid_secondary", "iterate_by_uuid_absent"]},
         "reference-model monitor (service list)"),
    spec("C04", "exploration", "C04: static sweep of the handle<->index mapping against the model handle table and protocol-level reads "
         "of every characteristic/include declaration; reported value handles are read back.",
         {"min_evaluations": 1000, "min_distinct": 200, "classes": ["static_sweep", "include_declaration", "characteristic_declaration"]},
         "static sweep + protocol read-back against the model handle table"),
    spec("C05", "exploration", "C05: per request the model decides whether the target requires encryption (server/service/characteristic "
         "inheritance) and the link is encrypted; refused accesses must carry 0x05/0x0F, values must not change, and every outgoing PDU "
         "is scanned for the unique byte patterns of protected values while unencrypted.",
         {"min_evaluations": 5000, "min_distinct": 60, "classes": ["protected_read_refused", "protected_read_encrypted", "protected_write_refused", "protected_write_encrypted", "state_encrypted", "state_unencrypted_no_key", "state_unencrypted_with_key"]},
         "security-state model + pattern scan of all outgoing PDUs"),
    spec("C06", "exploration", "C06: reference value store (shadow of every bound variable / handler storage) updated only by writes the "
         "model accepts; memory is compared with the shadow after every request; reads compared byte-exact incl. offsets and MTU "
         "truncation; permissions per access path.",
         {"min_evaluations": 100000, "min_distinct": 300, "classes": ["read_value", "blob_offset_inside", "blob_offset_past_end", "write_value", "writecmd_value", "read_multiple"]},
         "reference value store + memory diff after every request"),
    spec("C07", "exploration", "C07: queue model {owner, elements, bytes}; Prepare must not change memory, is accepted iff a Write Request "
         "would be permitted (permission + security), other clients get Prepare Queue Full; Execute applies the owner's elements in order.",
         {"min_evaluations": 3000, "min_distinct": 60, "classes": ["prepare_accepted", "prepare_queue_owned_by_other", "prepare_not_writable", "prepare_cccd", "execute_commit_owner", "execute_cancel_owner", "execute_element_applied", "disconnect"]},
         "prepared-write queue model + memory diff"),
    spec("C08", "exploration", "C08: per-connection MTU model min(server max, last valid client MTU); every response, notification and "
         "indication is measured against it.",
         {"min_evaluations": 2000, "min_distinct": 20, "classes": ["exchange_valid", "exchange_wrong_length", "exchange_below_23"]},
         "MTU model; all outgoing PDUs measured"),
    spec("C09", "exploration", "C09: CCCD table model per connection; after CCCD writes all CCCDs of all connections are read back; update "
         "callback count must equal the number of stored-value changes; configured_for_* accessors compared.",
         {"min_evaluations": 3000, "min_distinct": 40, "classes": ["cccd_write_ok", "cccd_write_rejected", "reconnect"]},
         "CCCD table model with full read-back"),
    spec("C10", "exploration", "C10: pending-set model per connection; every PDU from l2cap_output must be a notification/indication of a "
         "requested characteristic with its value handle and current value, to a subscribed connection, once per request burst.",
         {"min_evaluations": 5000, "min_distinct": 40, "classes": ["notify_by_value", "notify_by_uuid", "indicate_by_uuid", "poll_notification", "poll_indication", "poll_empty"]},
         "trace checker over (request, PDU out) events with pending-set model"),
    spec("C11", "exploration", "C11: at most one unconfirmed indication per connection; accepted indications must come out within "
         "2*#characteristics+2 polls while confirmations keep arriving; malformed confirmations must be rejected and not count.",
         {"min_evaluations": 5000, "min_distinct": 10, "classes": ["confirmation_expected", "confirmation_unexpected", "confirmation_wrong_length"]},
         "trace checker (request, indication, confirmation) with bounded progress"),
    spec("C14", "exploration", "C14: advertising_data/scan_response_data for every buffer size 0..31 in exact-size heap buffers; returned "
         "length, AD structure tiling, flags, name/UUID-list completeness markers, appearance and interval range against the model.",
         {"min_evaluations": 500, "min_distinct": 100, "classes": ["auto_advertising", "auto_scan_response", "custom_data", "name_complete", "name_shortened", "uuid16_complete", "uuid128_complete"]},
         "AD parser + model, exhaustive in buffer size 0..31", crash_owner=False),
]
