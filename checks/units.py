"""Stand-alone unit-level harnesses: C26 (white list), C18 (pdu ring), C20 (channel map), C12 (notification queue)."""
import os
from vlib.core import Build, Run, Spec, REPO


def R(p):
    return os.path.join(REPO, p)


def plan_c26(tier, seed):
    b = Build("whitelist", ["harness/whitelist/whitelist_harness.cpp", R("bluetoe/utility/address.cpp")])
    if tier == "quick":
        return [Run(b, ["--seed=%d" % seed, "--depth=4", "--ops=200000"])]
    runs = [Run(b, ["--seed=%d" % seed, "--depth=6", "--ops=2000000"], timeout=3000)]
    for i in range(1, 15):
        runs.append(Run(b, ["--seed=%d" % (seed * 1000 + i), "--depth=2", "--ops=3000000"], timeout=3000))
    return runs


SPECS = [
    Spec("C26", "exploration",
         rule="every history over {add,remove}x5 addresses (public/random variants of equal bytes, addresses differing in "
              "first/last byte), clear, both filter switches is enumerated to the stated depth on copies of the real object "
              "for N in {1,2,3,8} and the radio-backed variant, then long random histories; after every operation return "
              "value, free size, filter flags and membership/filter predicate of all 5 addresses are compared with a bounded "
              "std::set model. distinct_nontrivial = distinct (variant, N, model set, filter flags, op, return value) with a "
              "non-empty list, an active filter or an add/remove operation.",
         plan=plan_c26,
         floor={"min_evaluations": 100000, "min_distinct": 200,
                "classes": ["add_new", "add_member", "add_full", "remove_member_others_remain", "remove_last_member",
                            "remove_absent", "clear", "conn_filter", "scan_filter"]},
         assumptions=["the radio-backed variant has no production radio in this repository (nRF51/52 declare 0 hardware "
                      "entries); only faithful forwarding to a reference-set mock radio is checked for it"],
         crash_owner=True, design_ref="4/C26", technique="reference-model monitor (bounded set) over exhaustive+random histories, ASan/UBSan"),
]
