"""Family D: security manager (C32 pairing order, C33 key offers, C34 key distribution, C35 pairing status,
C36 pairing method selection).  One harness source, one binary per group of instantiations; the five checks share
the binaries through the build cache."""
import os
from vlib.core import Build, Run, Spec, REPO


def R(p):
    return os.path.join(REPO, p)


VARIANTS = ["legacy", "lesc", "combined"]


def cfg_name(c):
    v, o, i, oob, b = c
    return "%s.out%d.in%d.oob%d.bond%d" % (VARIANTS[v], o, i, oob, b)


def grid(tier):
    """3 SM variants x 6 local IO configurations x OOB callback x bonding data base.
    quick: the 36 instantiations with oob == bond (every variant x IO configuration x with/without OOB callback);
    thorough: all 72."""
    quick, rest = [], []
    for v in range(3):
        for o in range(2):
            for i in range(3):
                for oob in range(2):
                    for b in range(2):
                        (quick if oob == b else rest).append((v, o, i, oob, b))
    return quick if tier == "quick" else quick + rest


_builds = {}


def builds_for(configs, per_tu=3):
    """[(Build, config)] - three instantiations per translation unit (measured: ~11 s + ~12 s per instantiation)."""
    out = []
    # interleave the variants so that every TU has about the same cost
    ordered = sorted(configs, key=lambda c: (c[3] != c[4], c[1], c[2], c[3], c[4], c[0]))
    for k in range(0, len(ordered), per_tu):
        group = tuple(ordered[k:k + per_tu])
        if group not in _builds:
            macro = " ".join("X(%d,%d,%d,%d,%d)" % c for c in group)
            name = "sm_" + "_".join("%d%d%d%d%d" % c for c in group)
            _builds[group] = Build(
                name,
                ["harness/sm/sm_harness.cpp", R("bluetoe/utility/address.cpp")],
                c_sources=[R("tests/test_tools/uECC.c"), R("tests/test_tools/aes.c")],
                flags=["-g1", "-DuECC_CURVE=uECC_secp256r1", "-DSM_CONFIGS=" + macro],
                includes=[R("tests/test_tools"), R("tests/security_manager")])
        for c in group:
            out.append((_builds[group], c))
    return out


def plan_hist(tier, seed):
    ops = 300 if tier == "quick" else 5000
    runs = []
    for n, (b, c) in enumerate(builds_for(grid(tier))):
        runs.append(Run(b, ["--config=" + cfg_name(c), "--mode=hist", "--seed=%d" % (seed * 1000 + n), "--ops=%d" % ops],
                        timeout=1800 if tier == "quick" else 6000, skippable=True, tag="sm hist " + cfg_name(c)))
    return runs


def plan_table(tier, seed):
    runs = []
    for n, (b, c) in enumerate(builds_for(grid(tier))):
        runs.append(Run(b, ["--config=" + cfg_name(c), "--mode=table", "--seed=%d" % (seed * 1000 + n)],
                        timeout=1800, skippable=True, tag="sm table " + cfg_name(c)))
    if tier == "thorough":
        # the table does not depend on the seed except through keys / nonces / passkeys: two more seeds
        for extra in (1, 2):
            for n, (b, c) in enumerate(builds_for(grid("quick"))):
                runs.append(Run(b, ["--config=" + cfg_name(c), "--mode=table", "--seed=%d" % (seed * 1000 + 500 * extra + n)],
                                timeout=1800, skippable=True, tag="sm table s%d %s" % (extra, cfg_name(c))))
    return runs


WORKLOAD = ("pairing histories against an SMP initiator model with reference cryptography (refimpl c1/s1/f4/f5/f6, own P-256): "
            "(a) systematic: every monitor state {idle, legacy requested/confirmed, completed, LESC requested / keys exchanged / "
            "confirm sent / random exchanged / DHKey check received while the user is asked} reached by a valid prefix x every symbol "
            "{request(legacy), request(LESC), confirm, random, public key, DHKey check, unknown opcode} x {valid, wrong length, invalid "
            "field, wrong value}, followed by a valid Pairing Request (idle probe) and a complete pairing; (b) numeric comparison "
            "timing: user answer {sync yes/no, async yes/no before / between / after the central's DHKey check, never} x right/wrong "
            "DHKey check, and two attempts on one connection (first aborted after a verified DHKey check with the question open, second "
            "answered yes before the central's DHKey check); (c) random walks over PDUs, output polls, encryption flips, reconnects (3 peers), user answers, late "
            "answers; per history random request parameters, TK choice, addresses, keys (3 key pairs per side). ")

ASSUME_COMMON = [
    "security manager driven directly (l2cap_input / l2cap_output with exact-size heap buffers of the size link_layer's l2cap layer "
    "hands out: 23 legacy, 65 LESC/combined); connection data value-initialised and re-assigned on reconnect exactly as link_layer does",
    "peripheral-side security functions are the repository's host tool box (tests/security_manager/test_sm.hpp on aes.c + micro-ecc) "
    "with harness-controlled randomness; the oracle uses /verif/refimpl only",
    "lesc_security_manager and security_manager do not compile with bluetoe::pairing_keyboard on the unchanged tree "
    "(pairing_keyboard has no sm_pairing_request_yes_no); those 8 instantiations are built with a harness-side shim that adds the "
    "member with pairing_yes_no's behaviour (counter keyboard_yes_no_shim_used); the shim is not selected once the library has the member",
    "no require_man_in_the_middle_protection / enable_bonding option in the grid (the peripheral never sets MITM itself)",
]

SPECS = [
    Spec("C32", "exploration",
         rule=WORKLOAD + "Every input PDU is classified by an automaton written from Core Vol 3 Part H 2.3.5 / C.2.2 (accept / must be "
              "refused / either where the specification leaves it open); refused means Pairing Failed and the next valid request "
              "accepted; Srand only when Mrand reproduces Mconfirm under reference c1 with the TK of the cell; Eb only after a DHKey "
              "check that verifies under reference ECDH/f5/f6 and never while the user's answer is open or negative. "
              "distinct_nontrivial = distinct (instantiation, monitor state, protocol, opcode, length, expectation, outcome, user "
              "answer state), excluding refusals in the idle state.",
         plan=plan_hist,
         floor={"min_evaluations": 60000, "min_distinct": 1500,
                "classes": ["req_legacy:valid", "req_lesc:valid", "confirm:valid", "random:valid", "public_key:valid", "dhkey_check:valid",
                            "unknown_opcode:valid", "req_legacy:wrong_length", "req_lesc:invalid_field", "req_lesc:wrong_value",
                            "confirm:wrong_length", "confirm:wrong_value", "random:wrong_length", "random:wrong_value",
                            "public_key:wrong_length", "public_key:invalid_field", "dhkey_check:wrong_length", "dhkey_check:wrong_value",
                            "at:idle", "at:legacy_requested", "at:legacy_confirmed", "at:lesc_requested",
                            "at:lesc_keys_exchanged_confirm_due", "at:lesc_confirm_sent", "at:lesc_random_exchanged",
                            "at:lesc_dhkey_received_eb_due", "at:completed",
                            "expect_accept", "expect_refuse", "expect_either", "expect_deferred",
                            "srand_revealed", "eb_emitted", "lesc_confirm_emitted", "legacy_pairing_completed", "lesc_pairing_completed",
                            "idle_probe_after_refusal", "user_async_yes", "user_async_no", "user_late_answer", "deferred_pairing_failed",
                            "numeric_comparison:sync_yes:right_dhkey_check", "numeric_comparison:async_yes_before_dhkey:right_dhkey_check",
                            "numeric_comparison:async_yes_between_dhkey_and_poll:right_dhkey_check",
                            "numeric_comparison:async_yes_between_dhkey_and_poll:wrong_dhkey_check",
                            "numeric_comparison:async_yes_after_dhkey:right_dhkey_check", "numeric_comparison:async_yes_after_dhkey:wrong_dhkey_check",
                            "numeric_comparison:async_no_after_dhkey:right_dhkey_check", "numeric_comparison:never:right_dhkey_check",
                            "numeric_comparison:sync_no:right_dhkey_check", "numeric_comparison:second_attempt_after_aborted_first"],
                "counters": {"eb_verified": 200, "sconfirm_verified": 200, "peripheral_commitment_verified": 200, "reference_ecdh": 50}},
         assumptions=ASSUME_COMMON + [
             "LESC order as in the statement (request, public key, random, DHKey check): a LESC passkey-entry commitment (Pairing "
             "Confirm after the key exchange) may be accepted or refused; Bluetoe refuses it (passkey entry is not implemented)",
             "a Pairing Request after a completed pairing, reserved key-distribution bits and a Pairing Random sent before the "
             "peripheral's confirm was polled may be accepted or refused",
             "verification of Ea cannot be observed when Ea is right; only Eb before / after a wrong Ea is"],
         crash_owner=True, design_ref="4/C32", technique="pairing automaton + reference c1/f4/f5/f6/ECDH monitor over systematic and random SMP histories, ASan/UBSan"),
    Spec("C33", "exploration",
         rule=WORKLOAD + "After every action find_key is called for (0,0), up to three bonded (EDIV,Rand) pairs of any peer and their "
              "neighbours, random pairs and half-zero pairs; a key may be offered only if a pairing completed on this connection "
              "(monitor's flag) and the query is (0,0), or the harness's bond data base holds the pair for the connected peer; the key "
              "must be the STK (reference s1) / LTK (reference f5) the monitor computed or the bonded key; directly after a completed "
              "pairing the key must be offered and must be the key of that latest pairing even when the bond data base holds an older (0,0) entry for the peer (explicit histories: bonded LESC pairing, then legacy / LESC pairing of the same peer on the same or the next connection). store_bond / create_new_bond may only be called in the step that completes a pairing. "
              "distinct_nontrivial = distinct (instantiation, query class, connection situation, offered?, bonded?, protocol) outside "
              "the fresh-idle situation.",
         plan=plan_hist,
         floor={"min_evaluations": 500000, "min_distinct": 300,
                "classes": ["zero:key", "zero:none", "bonded_pair_of_this_peer:key", "bonded_pair_of_other_peer:none", "near_bonded_pair:none",
                            "random_pair:none", "zero_ediv_random_rand:none", "random_ediv_zero_rand:none",
                            "second_pairing_of_a_bonded_peer", "zero:new_pairing_key_while_older_bond_entry_exists",
                            "bond_created", "bond_stored_lesc_ltk", "bond_stored_distributed_ltk"]},
         assumptions=ASSUME_COMMON + [
             "after a completed pairing followed by a refused PDU or a late user answer the peripheral may keep or drop the key (if "
             "offered it must still be the right one)",
             "exchanges in which a C32 violation was flagged are not judged for C33 until pairing is reset, except: when the peripheral sent its final message (Srand / Eb) without being entitled to by the central's confirm / DHKey check, find_key(0,0) must still offer nothing",
             "LL_ENC_REQ path of link_layer is covered by family C (C28), not here"],
         design_ref="4/C33", technique="completion flag + reference s1/f5 key monitor, find_key probed after every step"),
    Spec("C34", "exploration",
         rule=WORKLOAD + "Every PDU from l2cap_input / l2cap_output with opcode 0x06 / 0x07 is checked: link encrypted at that moment, a "
              "pairing completed on this connection, at most once per key handed out by the bond data base, values equal to what "
              "create_new_bond returned.  distinct_nontrivial = distinct (instantiation, encrypted, completed, armed, items already "
              "sent, monitor state, PDU or none) while encrypted or a key is pending.",
         plan=plan_hist,
         floor={"min_evaluations": 100000, "min_distinct": 150,
                "classes": ["encryption_information_sent", "central_identification_sent", "poll_unencrypted_keys_pending",
                            "poll_encrypted_never_armed", "poll_unencrypted", "poll_encrypted_nothing_pending_or_sent",
                            "poll_single_pdu", "poll_unencrypted_between_ltk_and_ediv_rand"]},
         assumptions=ASSUME_COMMON + [
             "encryption is switched with is_encrypted(bool) on the connection data at arbitrary points (also without a key), also between the "
             "two key distribution PDUs (single-PDU polls stand for a link layer with one free transmit buffer)",
             "uninitialised pending flags: not applicable to how link_layer creates connection data (value-initialisation of a class "
             "without user-provided constructor zero-initialises); the harness constructs the data the same way; no valgrind run"],
         design_ref="4/C34", technique="trace checker over key distribution PDUs with encryption flips and (full or single-PDU) polls at random positions"),
    Spec("C35", "exploration",
         rule=WORKLOAD + "After every action local_device_pairing_status() is compared with the classification of the exchange the "
              "initiator actually drove: nothing completed -> no_key; legacy TK = 0 -> unauthenticated; legacy passkey / OOB TK that "
              "verified -> authenticated; LESC with r = 0 and no user question -> unauthenticated (Just Works), with a confirmed user "
              "question -> authenticated (numeric comparison), with OOB / passkey values in f6 -> authenticated.  "
              "distinct_nontrivial = distinct (instantiation, protocol, driven method, table entry, strict method, status, user "
              "policy, remote IO) of completed exchanges.",
         plan=plan_hist,
         floor={"min_evaluations": 100000, "min_distinct": 300,
                "classes": ["status_without_pairing", "completed_legacy_just_works", "completed_legacy_passkey_responder_displays",
                            "completed_legacy_passkey_responder_inputs", "completed_legacy_oob", "completed_lesc_just_works",
                            "completed_lesc_numeric_comparison", "status_after_given_up_pairing"]},
         assumptions=ASSUME_COMMON + [
             "LESC passkey entry and LESC OOB with non-zero ra/rb never complete against Bluetoe (not implemented), so the "
             "'authenticated after completed passkey entry / OOB' direction is only exercised for legacy pairing",
             "exchanges in which a C32 violation was flagged are not judged, except: when the peripheral sent its final message (Srand / Eb) without being entitled to by the central's confirm / DHKey check, no pairing completed and the status must stay no_key"],
         design_ref="4/C35", technique="initiator-side classification of the driven exchange vs local_device_pairing_status()"),
    Spec("C36", "exploration",
         rule="complete enumeration per instantiation: remote IO capability 0..4 x remote OOB flag x local OOB data present x AuthReq "
              "{bonding, MITM, SC} (160 cells; 80 without OOB callback) for 3 SM variants x 6 local IO configurations x with/without OOB "
              "callback (quick; thorough adds the bonding dimension and two more seeds).  Per cell: IO capability in the Pairing "
              "Response vs table 2.5; legacy_/lesc_pairing_algorithm() vs tables 2.6-2.8 typed from the specification "
              "(harness/sm/sm_tables.hpp); behavioural cross check (legacy: the exchange completes with the TK of the reported method; "
              "LESC: the user is asked iff numeric comparison).  Where neither side sets MITM the specification prescribes Just Works: "
              "'Just Works or the IO table entry' is accepted there (counters cells_mitm_rule_*).  distinct_nontrivial = distinct cells.",
         plan=plan_table,
         floor={"min_evaluations": 10000, "min_distinct": 4000,
                "classes": ["legacy_just_works", "legacy_oob", "legacy_passkey_responder_displays", "legacy_passkey_responder_inputs",
                            "lesc_just_works", "lesc_oob", "lesc_passkey_responder_displays", "lesc_passkey_responder_inputs",
                            "lesc_numeric_comparison", "mitm_rule_cell", "lesc_only_refuses_legacy_request",
                            "executed_legacy_just_works", "executed_legacy_oob", "executed_legacy_passkey_responder_displays",
                            "executed_legacy_passkey_responder_inputs", "executed_lesc_numeric_comparison_question", "executed_lesc_no_question"],
                "counters": {"cells": 4320}},
         assumptions=ASSUME_COMMON + [
             "the peripheral's own MITM flag is read from its Pairing Response (never set in this grid)",
             "the OOB data flag the peripheral advertises is not part of the statement and is not judged",
             "LESC passkey entry / OOB selection can only be cross-checked through the accessor (the protocols are not implemented)"],
         design_ref="4/C36", technique="exhaustive table enumeration against specification tables 2.5-2.8 + behavioural cross check"),
]
