"""lladv family: C24 (advertising channels and rate) and C25 (requests answered while advertising).

The real link_layer<> (7 option sets, one per binary) runs against harness/lladv/sim_radio.hpp on virtual time;
the scan request clause of C25 drives the real nrf52_radio_base<> with a mock Hardware on the host."""
import os
from vlib.core import Build, Run, Spec, REPO


def R(p):
    return os.path.join(REPO, p)


CONFIGS = [1, 2, 3, 4, 5, 6, 7]
NO_AUTO_START = (2, 4, 6)       # configurations with start/stop/count controls
VARIABLE_MAP = (2, 3, 5, 6)
CONNECTABLE = (1, 2, 3, 6, 7)

_builds = {}


def ll_build(n):
    if n not in _builds:
        _builds[n] = Build("lladv_cfg%d" % n,
                           ["harness/lladv/adv_harness.cpp", R("bluetoe/utility/address.cpp"),
                            R("bluetoe/link_layer/channel_map.cpp"), R("bluetoe/link_layer/connection_details.cpp"),
                            R("bluetoe/link_layer/delta_time.cpp")],
                           flags=["-DLLADV_CFG=%d" % n])
    return _builds[n]


def scan_build():
    if "scan" not in _builds:
        _builds["scan"] = Build("lladv_scan",
                                ["harness/lladv/scan_harness.cpp", R("bluetoe/utility/address.cpp"), R("bluetoe/link_layer/delta_time.cpp")],
                                flags=["-fpermissive"], std="c++14",
                                includes=["harness/lladv/stub", R("bluetoe/bindings/nordic/nrf52/include")])
    return _builds["scan"]


def plan_c24(tier, seed):
    runs = []
    quick = tier == "quick"
    for n in CONFIGS:
        b = ll_build(n)
        # enumerations: ordered pairs of maps x position of the change, start/stop/count sequences
        depth = (4 if quick else 6) if n in NO_AUTO_START else 1
        parts = 1 if quick else (8 if n in NO_AUTO_START else (2 if n in VARIABLE_MAP else 1))
        for p in range(parts):
            runs.append(Run(b, ["--mode=c24enum", "--seed=%d" % seed, "--depth=%d" % depth, "--part=%d" % p, "--parts=%d" % parts],
                            timeout=600 if quick else 3000))
        # random histories
        nrand = 2 if quick else 6
        for i in range(nrand):
            runs.append(Run(b, ["--mode=c24rand", "--seed=%d" % (seed * 1000 + i), "--ops=%d" % (1200 if quick else 30000)],
                            timeout=600 if quick else 3000, skippable=True))
    return runs


def plan_c25(tier, seed):
    runs = []
    quick = tier == "quick"
    for n in CONFIGS:
        b = ll_build(n)
        conn = n in CONNECTABLE
        nruns = (2 if conn else 1) if quick else (6 if conn else 2)
        for i in range(nruns):
            runs.append(Run(b, ["--mode=c25", "--seed=%d" % (seed * 1000 + i), "--ops=%d" % ((60 if conn else 30) if quick else 1500), "--pdus=150"],
                            timeout=600 if quick else 3000, skippable=True))
    sb = scan_build()
    for i in range(2 if quick else 8):
        runs.append(Run(sb, ["--seed=%d" % (seed * 1000 + i), "--ops=%d" % (15000 if quick else 400000)],
                        timeout=600 if quick else 3000, skippable=True))
    return runs


MAPS = ["{37}", "{38}", "{39}", "{37,38}", "{37,39}", "{38,39}", "{37,38,39}"]

SPECS = [
    Spec("C24", "exploration",
         rule="real link_layer<> in 7 option sets (default; variable map + no_auto_start + variable interval; directed + variable map + "
              "20 ms; scannable + no_auto_start + 10.24 s; non-connectable + variable interval + variable map; two multi-type "
              "advertisers) against a simulated scheduled_radio on virtual time. Enumerated: all 7 non-empty maps as initial map, all "
              "49 ordered pairs of maps as run-time change after every advertisement of an event (inside the event / between two "
              "events, with and without a pause) and while stopped; all start/start(1,2,4)/stop/run sequences of length <= depth "
              "(4 quick, 6 thorough) on every map; connect requests (valid / invalid parameters) on every channel. Random: histories "
              "of map, interval (incl. 20/100/10240 ms and out-of-range values), advertising type changes, start/stop/count, pauses, "
              "received PDUs (garbage, scan request, connect requests valid/invalid/for another device, CRC error). The logged "
              "schedule_advertisment() calls are grouped into events (PDUs <= 10 ms apart) and runs (separated by user (re)starts and "
              "connections) and judged against the harness's own record of what the user configured. "
              "distinct_nontrivial = distinct (option set, map, position of the event in its run, last-of-run, number of PDUs, verdict, "
              "interval, interval/map changed before, advertising PDU type) over events without a concurrent map change.",
         plan=plan_c24,
         floor={"min_evaluations": 40000, "min_distinct": 400,
                "classes": ["event_map_" + m for m in MAPS] + [
                    "map_change_inside_event", "map_change_between_events", "map_change_while_not_advertising", "event_with_map_change",
                    "start_unlimited", "start_with_count", "stop", "restart_by_start_advertising", "start_while_advertising",
                    "count_bound_checked", "count_reached_exactly", "last_event_cut_short", "gap_checked",
                    "interval_ms_20", "interval_ms_100", "interval_ms_10240", "interval_change", "interval_change_out_of_range",
                    "adv_pdu_type_0", "adv_pdu_type_1", "adv_pdu_type_2", "adv_pdu_type_6", "advertising_type_change",
                    "connection_entered", "restart_after_connection", "idle_after_connection"],
                "counters": {"map_pair_scripts": 400, "control_sequences_enumerated": 1000, "advertisements_logged": 50000}},
         assumptions=[
             "the simulated radio implements scheduled_radio.hpp: T0 of the next schedule_advertisment() is the start of the previous "
             "transmission, 'now' means one transmitter ramp-up (130 us) after the call (as the nRF52 binding does); the advertising delay "
             "is therefore measured from the LAST transmission of an event: event-start to event-start distances exceed "
             "interval + 10 ms by the duration of the event (classes start_to_start_exceeds_*), which is recorded, not judged",
             "an event during which the channel map was changed (between the scheduling of its first PDU and the scheduling of whatever "
             "follows its last PDU) is only required not to use a channel that was disabled when the transmission was scheduled "
             "(variable_advertising_channel_map documents that changing the map during advertising is not supported)",
             "the last event of a run (before stop_advertising, exhausted count, connection or end of observation) may be cut short, but "
             "has to be a prefix of the enabled channels; start_advertising(count) is checked as an upper bound on started events "
             "(the implementation counts PDUs, the documentation says events; the property only asks for a bound)",
             "a schedule_advertisment() call while the previously scheduled advertisement is still outstanding (stop_advertising(); "
             "start_advertising() within one interval) is recorded as an observation, not as a verdict: the simulated radio replaces the "
             "outstanding advertisement",
             "fixed channel maps: the repository only offers all_advertising_channel_map as a non-variable map"],
         crash_owner=True, design_ref="4/C24", technique="trace checker over a simulated scheduled radio on virtual time; enumeration of maps/map changes/control sequences + random histories; ASan/UBSan"),

    Spec("C25", "exploration",
         rule="connect requests: the 7 link_layer<> option sets advertise against the simulated radio; after ~85% of the advertisements "
              "an advertising channel PDU is delivered that starts as a valid CONNECT_IND for the current state and then gets every field "
              "independently replaced (PDU type 0..15, RFU/ChSel bits, RxAdd/TxAdd, AdvA one bit off/random/=InitA, InitA one bit off for "
              "directed advertising, length field 0..37/63/upper bits, delivered size 2..36, LLData valid corners or one invalid field); "
              "own address configured or set at run time (public/random), white list add/remove/clear and connection filter on/off "
              "between PDUs, advertising type changes for multi-type advertisers. The predicate is evaluated on the delivered bytes and "
              "on the advertising PDU that was on air; entering = first schedule_connection_event() (+ ll_connection_requested callback "
              "and reported remote address in cfg1). Parameter-invalid requests (Core Vol 6 Part B 2.3.3.1/4.5.2) may go either way. "
              "scan requests: the unmodified nrf52_radio_base<> with mock Hardware (both memory layouts), real ll_data_pdu_buffer and the "
              "real software white list; SCAN_REQ built the same way (type, length, stale valid request behind a short PDU, AdvA, RxAdd, "
              "ScanA with its own address type, CRC) x advertising type x scan filter/white list; answered = final transmission of "
              "the scan response configured. distinct_nontrivial = distinct (option set or layout, advertising PDU type, own address type, "
              "filter on, list size, reason class, header bytes, delivered size, outcome).",
         plan=plan_c25,
         floor={"min_evaluations": 100000, "min_distinct": 3000,
                "classes": ["adv_type_0", "adv_type_1", "adv_type_2", "adv_type_6", "own_address_public", "own_address_random",
                            "must_enter_valid_undirected", "must_enter_valid_directed", "observed_entered", "observed_not_entered",
                            "must_not_advertising_not_connectable", "must_not_pdu_type_not_connect_ind", "must_not_length_field_not_34",
                            "must_not_truncated", "must_not_adva_not_own_address", "must_not_rxadd_not_own_address_type",
                            "must_not_inita_not_directed_peer", "must_not_txadd_not_directed_peer_type", "must_not_initiator_not_in_white_list",
                            "either_parameters_invalid_interval", "either_parameters_invalid_hop", "either_parameters_invalid_channel_map",
                            "either_parameters_invalid_timeout_range", "either_parameters_invalid_win_size", "either_length_byte_upper_bits_set",
                            "conn_filter_on", "conn_filter_off", "wl_add", "wl_remove", "callback_remote_address_checked",
                            "must_answer_valid_scan_request_filter_off_same_address_type", "must_answer_valid_scan_request_filter_off_other_address_type",
                            "must_answer_valid_scan_request_filter_on_same_address_type", "must_answer_valid_scan_request_filter_on_other_address_type",
                            "must_not_scanner_not_in_white_list", "must_not_advertising_not_scannable", "must_not_pdu_type_not_scan_req",
                            "must_not_length_field_not_12", "must_not_crc_error", "observed_answered", "observed_not_answered",
                            "gen_stale_valid_request_behind_short_pdu", "scan_filter_on"],
                "counters": {"scan_cases_plain_layout": 10000, "scan_cases_crypto_layout": 10000, "connection_events_logged": 1000}},
         assumptions=[
             "a received PDU reaches the link layer as the radio bindings deliver it: at least 2 and at most 36 bytes (the size of the "
             "receive buffer the link layer hands out); sizes below length field + 2 model a truncated reception",
             "parameter validity of a connect request belongs to C22/C20: requests with invalid LLData, with an access address other than "
             "the one vetted value, or with the two upper bits of the length byte set are accepted either way",
             "scan request clause: checked for the only radio of the repository that answers scan requests on its own code path that can be "
             "built on the host (nrf52_radio_base) with a mock Hardware; the radio object is placed in zero-initialised memory because "
             "nrf52_radio_base does not initialise its flags/state (it relies on static storage); Hardware::resolving_address_invalid() "
             "is held false (no identity resolving); register-level behaviour of the nRF52 is not involved",
             "the link layer's own is_valid_scan_request helpers in advertising.hpp are not called by link_layer<> and are not exercised"],
         crash_owner=False, design_ref="4/C25", technique="predicate oracle on field-wise generated advertising channel PDUs against a simulated radio and the host-built nrf52_radio_base; ASan/UBSan with exact-size receive buffers"),
]
