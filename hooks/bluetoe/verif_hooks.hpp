// Types used by the guarded (BLUETOE_VERIF_HOOKS) hooks in the Bluetoe sources.
// They do not change what the code computes: storage wrappers that (a) call a yield function before
// every load/store so a deterministic scheduler can interleave an "interrupt" there, and (b) surround a
// byte array with ASan-poisoned zones so an intra-object overflow becomes a sanitizer report.
#ifndef BLUETOE_VERIF_HOOKS_HPP
#define BLUETOE_VERIF_HOOKS_HPP

#include <atomic>
#include <cstddef>
#include <cstdint>
#include <cstring>

#if defined(__SANITIZE_ADDRESS__)
#  define BLUETOE_VERIF_ASAN 1
#elif defined(__has_feature)
#  if __has_feature(address_sanitizer)
#    define BLUETOE_VERIF_ASAN 1
#  endif
#endif

#ifdef BLUETOE_VERIF_ASAN
extern "C" void __asan_poison_memory_region(void const volatile* addr, std::size_t size);
extern "C" void __asan_unpoison_memory_region(void const volatile* addr, std::size_t size);
#endif

namespace bluetoe {
namespace verif_hooks {

    typedef void (*yield_function)( int kind, const void* addr );

    // kind: 0 = load, 1 = store
    inline yield_function& yield_hook()
    {
        static yield_function f = nullptr;
        return f;
    }

    inline unsigned long long& yield_count()
    {
        static unsigned long long c = 0;
        return c;
    }

    inline void yield( int kind, const void* addr )
    {
        ++yield_count();
        if ( yield_hook() )
            yield_hook()( kind, addr );
    }

    /**
     * plain value whose every load and every store is preceded by a yield point. A read-modify-write
     * (x |= m) is load, yield, store - exactly what the compiler generates for a non atomic byte.
     */
    template < typename T >
    class yielding
    {
    public:
        yielding() : v_() {}
        yielding( T v ) : v_( v ) {}

        operator T() const
        {
            yield( 0, &v_ );
            return v_;
        }

        yielding& operator=( T v )
        {
            yield( 1, &v_ );
            v_ = v;
            return *this;
        }

        template < typename U >
        yielding& operator|=( U m )
        {
            const T old = static_cast< T >( *this );
            return *this = static_cast< T >( old | m );
        }

        template < typename U >
        yielding& operator&=( U m )
        {
            const T old = static_cast< T >( *this );
            return *this = static_cast< T >( old & m );
        }

        // unobserved access for monitors
        T peek() const { return v_; }
    private:
        T v_;
    };

    /**
     * std::atomic_int with a yield point before each load and store
     */
    class yielding_atomic_int
    {
    public:
        yielding_atomic_int( int v ) : v_( v ) {}

        int load() const
        {
            yield( 0, &v_ );
            return v_.load();
        }

        void store( int v )
        {
            yield( 1, &v_ );
            v_.store( v );
        }
    private:
        std::atomic_int v_;
    };

    /**
     * byte array of N bytes between two poisoned zones. The payload is right aligned to the shadow
     * granularity, so that the first byte behind the array is poisoned.
     */
    template < std::size_t N >
    class guarded_array
    {
    public:
        guarded_array()
        {
            std::memset( raw_, 0, sizeof( raw_ ) );
            poison();
        }

        guarded_array( const guarded_array& other )
        {
            std::memset( raw_, 0, sizeof( raw_ ) );
            std::memcpy( base(), other.base(), N );
            poison();
        }

        guarded_array& operator=( const guarded_array& other )
        {
            std::memcpy( base(), other.base(), N );
            return *this;
        }

        ~guarded_array()
        {
#ifdef BLUETOE_VERIF_ASAN
            __asan_unpoison_memory_region( raw_, sizeof( raw_ ) );
#endif
        }

        operator std::uint8_t*() { return base(); }
        operator const std::uint8_t*() const { return base(); }

        std::uint8_t* begin() { return base(); }
        std::uint8_t* end() { return base() + N; }

    private:
        static constexpr std::size_t zone   = 512;
        static constexpr std::size_t padded = ( N + 7 ) / 8 * 8;

        std::uint8_t* base() { return raw_ + zone + ( padded - N ); }
        const std::uint8_t* base() const { return raw_ + zone + ( padded - N ); }

        void poison()
        {
#ifdef BLUETOE_VERIF_ASAN
            __asan_poison_memory_region( raw_, zone + ( padded - N ) );
            __asan_poison_memory_region( raw_ + zone + padded, zone );
#endif
        }

        alignas( 16 ) std::uint8_t raw_[ zone + padded + zone ];
    };

}
}

#endif
