"""Curated and seeded-random GATT declarations for family A (see declgen.py for the format)."""
import random


def ch(uuid, kind, size=0, opts=(), name=None, descs=(), handle=None, handles=None, enc=None, **kw):
    d = {"uuid": uuid, "kind": kind, "size": size, "opts": set(opts), "name": name, "descs": list(descs),
         "handle": handle, "handles": handles, "enc": enc}
    d.update(kw)
    return d


def svc(uuid, chars, primary=True, handle=None, includes=(), enc=None, prio=None):
    return {"primary": primary, "uuid": uuid, "handle": handle, "includes": list(includes), "enc": enc, "prio": prio, "chars": chars}


def U(n):
    """a 128 bit uuid derived from a small number"""
    return (0x8C8B4094 ^ (n * 0x01010101 & 0xffffffff), 0x0DE2, 0x499F, 0xA28A, 0x4EED5BC73C00 + (n << 16 & 0xffff0000) + n)


def decl(name, services, **kw):
    d = {"name": name, "services": services, "mtu": None, "wq": None, "enc": None, "server_name": None, "appearance": None,
         "adv_appearance": False, "gap": True, "cccd_cb": False, "list16": None, "list128": None, "interval": None,
         "custom_adv": None, "custom_scan": None, "prio": None}
    d.update(kw)
    return d


def curated():
    D = []
    # 1. fixed handles with gaps, between and inside services
    D.append(decl("fixed_gaps", [
        svc(0x1810, [ch(0x2A10, "bound", 4, ["notify"]), ch(0x2A11, "bound", 2, [], handle=0x0010),
                     ch(0x2A12, "bound", 1, ["indicate"], handles=(0x0020, 0x0022, 0x0030), name="gap char")]),
        svc(U(1), [ch(None, "bound", 8), ch(U(101), "bound_const", 4)], handle=0x0100),
        svc(0x1811, [ch(0x2A13, "bound", 20, ["notify", "indicate"], handles=(0x0201, 0x0205, 0))], handle=0x0200),
    ], mtu=65, wq=64, cccd_cb=True))
    # 2. a service ending just before a later one, 16 and 128 bit service uuids alternating
    D.append(decl("adjacent_services", [
        svc(0x1820, [ch(0x2A20, "bound", 2)]),
        svc(U(2), [ch(None, "bound", 2), ch(None, "bound", 4, ["notify"])]),
        svc(0x1821, [ch(0x2A21, "fixed16", fixed=0x1234), ch(0x2A22, "cstring", text="hello world")]),
        svc(U(3), [ch(U(103), "blob", bytes=bytes(range(1, 41)))]),
        svc(0x1822, [ch(0x2A23, "bound", 1)]),
    ], mtu=23))
    # 3. primary + secondary mix with includes
    D.append(decl("secondary_mix", [
        svc(0x1830, [ch(0x2A30, "bound", 2)], primary=False),
        svc(0x1831, [ch(0x2A31, "bound", 4, ["notify"])], includes=[0, 2]),
        svc(U(4), [ch(None, "bound", 3)], primary=False),
        svc(0x1832, [ch(0x2A32, "bound", 2)], includes=[2]),
        svc(U(5), [ch(U(105), "bound", 6, ["indicate"])], primary=False, includes=[0]),
        svc(0x1833, [ch(0x2A33, "bound", 1)]),
    ], mtu=48, wq=32))
    # 4. includes combined with fixed handles before and after the included service
    D.append(decl("include_fixed", [
        svc(0x1840, [ch(0x2A40, "bound", 2, ["notify"]), ch(0x2A41, "bound", 2, handle=0x0020)], includes=[1], handle=0x0005),
        svc(U(6), [ch(None, "bound", 4)], primary=False, handle=0x0040),
        svc(0x1841, [ch(0x2A42, "bound", 2, ["indicate"], handles=(0x0063, 0x0064, 0x0068), descs=[(0x2904, bytes([1, 2, 3, 4, 5, 6, 7]))])],
            includes=[1, 0], handle=0x0060),
    ], mtu=30, wq=64))
    # 5. every encryption option placement
    D.append(decl("encryption_matrix", [
        svc(0x1850, [ch(0x2A50, "bound", 8, ["notify"]), ch(0x2A51, "bound", 8, ["indicate"], enc="no"),
                     ch(0x2A52, "bound", 8, ["notify"], enc="may"), ch(0x2A53, "hb_rw", 12, ["notify"], enc="req")]),
        svc(0x1851, [ch(0x2A54, "bound", 8, ["notify"]), ch(0x2A55, "bound", 8, ["indicate"], enc="req"),
                     ch(0x2A56, "cstring", text="secret text value", enc="req"), ch(0x2A57, "fixed32", fixed=0xDEADBEEF)], enc="no"),
        svc(U(7), [ch(None, "bound", 8), ch(U(107), "bound", 8, ["notify"], enc="no")], enc="may"),
        svc(0x1852, [ch(0x2A58, "bound", 8, ["notify", "indicate"]), ch(0x2A59, "h_rw", 8, enc="no")], enc="req"),
    ], enc="req", mtu=40, wq=64, cccd_cb=True))
    D.append(decl("encryption_default_off", [
        svc(0x1850, [ch(0x2A50, "bound", 8, ["notify"]), ch(0x2A51, "bound", 8, ["indicate"], enc="req"),
                     ch(0x2A52, "blob", bytes=bytes(range(0x40, 0x58)), enc="req")]),
        svc(0x1851, [ch(0x2A54, "bound", 8, ["notify"]), ch(0x2A55, "bound", 8, enc="no"), ch(0x2A56, "hb_rw", 30)], enc="req"),
    ], mtu=23, wq=32))
    # 6. >= 9 CCCDs (crosses the 4-per-byte packing twice)
    D.append(decl("many_cccd", [
        svc(0x1860, [ch(0x2A60 + i, "bound", 2 + (i % 3), ["notify"] if i % 3 else ["notify", "indicate"]) for i in range(5)]),
        svc(U(8), [ch(U(110 + i), "bound", 4, ["indicate"] if i % 2 else ["notify"]) for i in range(5)]),
    ], mtu=50, cccd_cb=True))
    # 7. priorities at server and service level, including single entry levels
    D.append(decl("priorities", [
        svc(0x1870, [ch(0x2A70, "bound", 4, ["notify"]), ch(0x2A71, "bound", 4, ["notify", "indicate"]), ch(0x2A72, "bound", 4, ["indicate"])],
            prio=("higher", [1])),
        svc(0x1871, [ch(0x2A73, "bound", 4, ["notify"]), ch(0x2A74, "bound", 2), ch(0x2A75, "bound", 4, ["notify", "indicate"])],
            prio=("higher", [2])),
        svc(0x1872, [ch(0x2A76, "bound", 4, ["notify"])]),
    ], prio=("higher", [2, 0]), mtu=30))
    # 8. write queue + protected targets + CCCD targets, all value kinds
    D.append(decl("queue_targets", [
        svc(0x1880, [ch(0x2A80, "bound", 40, ["notify"]), ch(0x2A81, "bound", 40, enc="req"), ch(0x2A82, "bound_const", 8),
                     ch(0x2A83, "hb_rw", 40, ["indicate"]), ch(0x2A84, "h_w", 10), ch(0x2A85, "h_r", 10, ["notify"]),
                     ch(0x2A86, "bound", 4, ["no_write"]), ch(0x2A87, "bound", 4, ["no_read", "notify"]),
                     ch(0x2A88, "fixed8", fixed=0x42), ch(0x2A89, "m_rw", 16), ch(0x2A8A, "hb_rw", 12, ["no_read", "notify"]),
                     ch(0x2A8B, "h_r", 6, ["no_read", "indicate"])]),
    ], mtu=23, wq=255, cccd_cb=True))
    # 9. long values with large MTU
    D.append(decl("long_values_247", [
        svc(U(9), [ch(U(120), "bound", 120, ["notify"]), ch(U(121), "hb_rw", 100, ["indicate"]), ch(None, "bound", 60),
                   ch(U(122), "blob", bytes=bytes((i * 7) & 0xff for i in range(110))),
                   ch(U(123), "cstring", text="x" * 90)]),
    ], mtu=247, wq=255))
    D.append(decl("long_values_65", [
        svc(0x1890, [ch(0x2A90, "bound", 100, ["notify", "indicate"]), ch(0x2A91, "hb_r", 64, ["notify"]), ch(0x2A92, "bound", 64, ["wwr"]),
                     ch(0x2A93, "bound", 22), ch(0x2A94, "bound", 23, ["only_wwr"])]),
    ], mtu=65, wq=128))
    # 10. advertising item combinations
    D.append(decl("adv_full", [
        svc(0x18A0, [ch(0x2AA0, "bound", 2)]), svc(0x18A1, [ch(0x2AA1, "bound", 2)]), svc(0x18A2, [ch(0x2AA2, "bound", 2)]),
        svc(U(10), [ch(None, "bound", 2)]), svc(U(11), [ch(None, "bound", 2)]),
    ], server_name="A rather long server name 1234567", appearance=0x0300, adv_appearance=True, interval=(0x0006, 0x0C80)))
    D.append(decl("adv_lists", [
        svc(0x18A0, [ch(0x2AA0, "bound", 2)]), svc(0x18A1, [ch(0x2AA1, "bound", 2)]), svc(U(10), [ch(None, "bound", 2)]),
    ], server_name="N", list16=[0x18A1, 0x18A0, 0x180F], list128=[U(10)], appearance=0x0040))
    D.append(decl("adv_custom", [
        svc(0x18A0, [ch(0x2AA0, "bound", 2, ["notify"])]),
    ], custom_adv=bytes([2, 1, 6, 5, 9, 65, 66, 67, 68]), custom_scan=bytes([3, 0xff, 1, 2]), gap=False, server_name="ignored"))
    D.append(decl("adv_no_lists", [
        svc(0x18A0, [ch(0x2AA0, "bound", 2)]), svc(U(12), [ch(None, "bound", 2)]),
    ], list16="none", server_name="", adv_appearance=True))
    # 11. interleaved 16/128 bit attribute types and differing value lengths under one type (discovery iteration)
    D.append(decl("mixed_types", [
        svc(0x18B0, [ch(0x2AB0, "bound", 2), ch(U(130), "bound", 2), ch(0x2AB0, "bound", 4), ch(0x2AB0, "bound", 2),
                     ch(U(130), "bound", 6), ch(0x2AB1, "h_w", 4), ch(0x2AB0, "bound", 2, ["no_read", "notify"]), ch(0x2AB0, "bound", 2)]),
        svc(U(13), [ch(0x2AB0, "bound", 2), ch(None, "bound", 2), ch(0x2AB2, "bound", 1, name="named", descs=[(0x2904, bytes(7))])]),
    ], mtu=23))
    # 13. write queue smaller than one maximum sized prepare write (a single request can be refused on an empty queue)
    D.append(decl("small_queue", [
        svc(0x18D0, [ch(0x2AD0, "bound", 100, ["notify"]), ch(0x2AD1, "bound", 60), ch(0x2AD2, "bound", 20), ch(0x2AD3, "hb_rw", 80)]),
    ], mtu=100, wq=40))
    # 12. no gap service, tiny server
    D.append(decl("tiny_nogap", [svc(0x18C0, [ch(0x2AC0, "bound", 1)])], gap=False))
    return D


def random_decl(seed, idx):
    r = random.Random(seed * 1000003 + idx)
    n_svc = r.randint(1, 5)
    cccd_budget = r.choice([0, 1, 2, 3, 4, 5, 6, 8, 9, 10])
    total_chars = 0
    services = []
    h = 1
    use_fixed = r.random() < 0.5
    u16 = 0x1900 + (idx * 16) % 0x600
    cu = 0x2B00
    for si in range(n_svc):
        is128 = r.random() < 0.4
        suuid = U(40 + idx * 8 + si) if is128 else (u16 + si)
        primary = r.random() < 0.7
        s_handle = None
        if use_fixed and r.random() < 0.4:
            h += r.choice([0, 1, 2, 7, 0x20])
            s_handle = h
        includes = [j for j in range(si) if r.random() < 0.25][:2]
        h += 1 + len(includes)
        chars = []
        for ci in range(r.randint(1, 5)):
            if total_chars >= 20:
                break
            total_chars += 1
            kind = r.choice(["bound"] * 6 + ["bound_const", "fixed8", "fixed16", "fixed32", "cstring", "blob", "h_r", "h_w", "h_rw",
                                             "hb_r", "hb_w", "hb_rw", "hb_rw", "m_rw"])
            size = r.choice([1, 2, 3, 4, 8, 16, 20, 21, 22, 23, 30, 64, 100])
            opts = set()
            cuuid = None if (is128 and r.random() < 0.3) else (U(200 + idx * 32 + total_chars) if r.random() < 0.3 else cu + total_chars)
            extra = {}
            if kind == "cstring":
                extra["text"] = "".join(r.choice("abcdefghij XYZ0123") for _ in range(r.choice([0, 1, 5, 19, 20, 22, 23, 40])))
            if kind == "blob":
                extra["bytes"] = bytes(r.randrange(256) for _ in range(r.choice([1, 2, 19, 22, 23, 50])))
            if kind.startswith("fixed"):
                extra["fixed"] = r.randrange(1 << int(kind[5:]))
            can_read = kind in ("bound", "bound_const", "fixed8", "fixed16", "fixed32", "cstring", "blob") or "r" in kind.split("_")[-1]
            can_write = kind == "bound" or (kind[0] in "hm" and "w" in kind.split("_")[-1])
            can_notify = kind in ("bound", "bound_const", "fixed8", "fixed16", "fixed32") or (kind[0] in "hm" and "r" in kind.split("_")[-1])
            if can_notify and cccd_budget > 0 and r.random() < 0.6:
                opts |= set(r.choice([["notify"], ["indicate"], ["notify", "indicate"]]))
                cccd_budget -= 1
                if cuuid is None:
                    cuuid = cu + total_chars
            if kind == "bound" and r.random() < 0.15:
                opts.add("no_write")
                can_write = False
            if kind in ("bound", "bound_const") and r.random() < 0.12 and (can_write or opts & {"notify", "indicate"}):
                opts.add("no_read")
            if kind in ("h_rw", "hb_rw", "m_rw", "h_r", "hb_r") and r.random() < 0.15 and (can_write or opts & {"notify", "indicate"}):
                opts.add("no_read")
            if can_write and r.random() < 0.2:
                opts.add(r.choice(["wwr", "only_wwr"]))
            name = "".join(r.choice("abc def") for _ in range(r.choice([1, 10, 30]))) if r.random() < 0.2 else None
            descs = [(0x2904 + j, bytes(r.randrange(256) for _ in range(r.choice([1, 7, 25])))) for j in range(r.choice([0, 0, 0, 1]))]
            handle = handles = None
            has_cccd = bool(opts & {"notify", "indicate"})
            if use_fixed and r.random() < 0.3:
                h += r.choice([0, 1, 3, 0x10])
                if r.random() < 0.5:
                    handle = h
                else:
                    d0 = h
                    v0 = d0 + r.choice([1, 1, 2, 5])
                    c0 = (v0 + r.choice([1, 1, 3])) if has_cccd and r.random() < 0.7 else 0
                    handles = (d0, v0, c0)
            enc = r.choice([None] * 6 + ["req", "no", "may"])
            c = ch(cuuid, kind, size, opts, name, descs, handle, handles, enc, **extra)
            chars.append(c)
            # advance handle estimate
            if handles:
                h = (handles[2] or handles[1]) + 1 if has_cccd and handles[2] else handles[1] + 1 + (1 if has_cccd else 0)
            elif handle:
                h = handle + 2 + (1 if has_cccd else 0)
            else:
                h += 2 + (1 if has_cccd else 0)
            h += (1 if name is not None else 0) + len(descs)
        if not chars:
            chars = [ch(cu + 99 + si, "bound", 2)]
            h += 2
        # auto uuid needs 128 bit service uuid
        for c in chars:
            if c["uuid"] is None and not is128:
                c["uuid"] = cu + 200 + si * 8 + chars.index(c)
        services.append(svc(suuid, chars, primary, s_handle, includes, r.choice([None] * 4 + ["req", "no", "may"])))
    if not any(s["primary"] for s in services):
        services[0]["primary"] = True
    # included services must exist: indexes refer to earlier services only (already the case)
    name = r.choice([None, None, "S", "Bluetoe verif", "abcdefghijklmnopqrstuvwxyz0123456789ABCD"])
    d = decl("rand_%d_%d" % (seed, idx), services,
             mtu=r.choice([None, 23, 24, 27, 48, 65, 100, 158, 247]), wq=r.choice([None, 24, 32, 64, 255]),
             enc=r.choice([None, None, None, "req", "may", "no"]), server_name=name,
             appearance=r.choice([None, 0x0040, 0x0341]), adv_appearance=r.random() < 0.4, gap=r.random() < 0.85,
             cccd_cb=r.random() < 0.5, interval=r.choice([None, None, (0x0006, 0x0C80), (0xFFFF, 0xFFFF), (0x0010, 0x0020)]))
    return d
