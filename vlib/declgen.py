"""GATT declaration generator + independent attribute-database model (family A).

A *declaration* is a plain python dict describing a bluetoe::server<...> instantiation.  emit() writes one
header that contains (1) the C++ server type with its bound variables/handlers and (2) the EXPECTED
attribute database as plain data, computed here from the declaration by the rules of the GATT
specification and the Bluetoe documentation - never by including or consulting Bluetoe code.

declaration = {
  name, mtu (23..247 or None), wq (None|int), enc (None|'req'|'no'|'may'), server_name (None|str),
  appearance (None|int), adv_appearance (bool), gap (bool), cccd_cb (bool),
  list16 (None|'none'|[uuid16...]), list128 (None|[uuid128-tuple...]), interval (None|(min,max)),
  custom_adv (None|bytes), custom_scan (None|bytes), prio (None|('higher'|'lower',[service idx...])),
  services: [ { primary, uuid (int for 16 bit | 5-tuple for 128 bit), handle (None|int), includes [svc idx...],
                enc, prio (None|(kind,[char idx...])),
                chars: [ { uuid (None=auto | int | 5-tuple), kind, size, opts set, name (None|str),
                           descs [(uuid16, bytes)...], handle (None|int), handles (None|(d,v,c)), enc } ] } ] }
char kinds: 'bound' (u8/u16/u32 by size 1/2/4, else uint8_t[size]), 'bound_const', 'fixed8'/'fixed16'/'fixed32' (value in 'fixed'),
            'cstring' (text), 'blob' (bytes), 'h_r' / 'h_w' / 'h_rw' (free non-blob handlers), 'hb_r' / 'hb_w' / 'hb_rw' (free blob
            handlers), 'm_rw' (mixin blob handlers)
opts: no_read, no_write, wwr, only_wwr, notify, indicate
"""
import random

PRIMARY, SECONDARY, INCLUDE, CHAR_DECL, VALUE, CCCD, USER_DESC, DESCRIPTOR = range(8)


def uuid_bytes(u):
    if isinstance(u, int):
        return [u & 0xff, (u >> 8) & 0xff]
    a, b, c, d, e = u
    v = (a << 96) | (b << 80) | (c << 64) | (d << 48) | e
    return list(v.to_bytes(16, "little"))


def cpp_uuid(u, what):
    if isinstance(u, int):
        return "bluetoe::%s_uuid16< 0x%04X >" % (what, u)
    return "bluetoe::%s_uuid< 0x%08X, 0x%04X, 0x%04X, 0x%04X, 0x%012X >" % ((what,) + tuple(u))


ENC_OPT = {"req": "bluetoe::requires_encryption", "no": "bluetoe::no_encryption_required", "may": "bluetoe::may_require_encryption"}


def enc_resolve(default, opt):
    if opt == "req":
        return True
    if opt == "no":
        return False
    return default          # None and 'may' are transparent


def is_handler(kind):
    return kind.startswith("h") or kind.startswith("m_")


def char_traits(ch):
    """readable / writable / blob support by the documented meaning of kinds and options."""
    k, o = ch["kind"], ch["opts"]
    if k == "bound":
        r, w = True, True
    elif k == "bound_const":
        r, w = True, False
    elif k in ("fixed8", "fixed16", "fixed32", "cstring", "blob"):
        r, w = True, False
    else:
        tail = k.split("_")[1]
        r, w = "r" in tail, "w" in tail
    if "no_read" in o:
        r = False
    if "no_write" in o:
        w = False
    blob = k in ("bound", "bound_const", "fixed8", "fixed16", "fixed32", "cstring", "blob", "hb_r", "hb_w", "hb_rw", "m_rw")
    return r, w, blob


def char_size(ch):
    k = ch["kind"]
    if k == "fixed8":
        return 1
    if k == "fixed16":
        return 2
    if k == "fixed32":
        return 4
    if k == "cstring":
        return len(ch["text"])
    if k == "blob":
        return len(ch["bytes"])
    return ch["size"]


def build_model(d):
    """Attribute database by the GATT rules + Bluetoe documentation."""
    services = [dict(s) for s in d["services"]]
    if d.get("gap", True):
        name = d.get("server_name")
        services.append({
            "primary": True, "uuid": 0x1800, "handle": None, "includes": [], "enc": None, "prio": None, "gap": True,
            "chars": [
                {"uuid": 0x2A00, "kind": "cstring", "text": name if name is not None else "Bluetoe-Server", "opts": set(),
                 "name": None, "descs": [], "handle": None, "handles": None, "enc": None},
                {"uuid": 0x2A01, "kind": "fixed16", "fixed": d.get("appearance") or 0, "opts": set(),
                 "name": None, "descs": [], "handle": None, "handles": None, "enc": None},
            ]})
    srv_enc = enc_resolve(False, d.get("enc"))
    attrs, chars, svcs = [], [], []
    h = 1
    cccd_ord = 0
    for si, s in enumerate(services):
        if s.get("handle"):
            h = s["handle"]
        first = h
        sattr = {"handle": h, "kind": PRIMARY if s["primary"] else SECONDARY, "svc": si, "chr": -1,
                 "type": uuid_bytes(0x2800 if s["primary"] else 0x2801), "value": uuid_bytes(s["uuid"])}
        attrs.append(sattr)
        h += 1
        inc_attrs = []
        for inc in s.get("includes", []):
            a = {"handle": h, "kind": INCLUDE, "svc": si, "chr": -1, "type": uuid_bytes(0x2802), "value": None, "inc": inc}
            attrs.append(a)
            inc_attrs.append(a)
            h += 1
        svc_enc = enc_resolve(srv_enc, s.get("enc"))
        for ci, ch in enumerate(s["chars"]):
            if ch.get("handles"):
                dh, vh, cch = ch["handles"]
            elif ch.get("handle"):
                dh, vh, cch = ch["handle"], ch["handle"] + 1, 0
            else:
                dh, vh, cch = h, h + 1, 0
            r, w, blob = char_traits(ch)
            o = ch["opts"]
            has_cccd = "notify" in o or "indicate" in o
            if ch["uuid"] is None:
                ub = uuid_bytes(s["uuid"])
                idx = ci + 1
                ub[0] ^= idx & 0xff
                ub[1] ^= idx >> 8
            else:
                ub = uuid_bytes(ch["uuid"])
            props = 0
            if r:
                props |= 0x02
            if w and "only_wwr" not in o:
                props |= 0x08
            if "wwr" in o or "only_wwr" in o:
                props |= 0x04
            if "notify" in o:
                props |= 0x10
            if "indicate" in o:
                props |= 0x20
            c = {"svc": si, "ci": ci, "decl_h": dh, "value_h": vh, "cccd_h": 0, "props": props,
                 "enc": enc_resolve(svc_enc, ch.get("enc")), "uuid": ub, "kind": ch["kind"], "size": char_size(ch),
                 "readable": r, "writable": w, "blob": blob, "notify": "notify" in o, "indicate": "indicate" in o,
                 "cccd_ord": -1, "only_wwr": "only_wwr" in o, "src": ch, "gap": bool(s.get("gap"))}
            cidx = len(chars)
            chars.append(c)
            attrs.append({"handle": dh, "kind": CHAR_DECL, "svc": si, "chr": cidx, "type": uuid_bytes(0x2803),
                          "value": [props, vh & 0xff, vh >> 8] + ub})
            attrs.append({"handle": vh, "kind": VALUE, "svc": si, "chr": cidx, "type": ub, "value": None})
            h = vh + 1
            if has_cccd:
                if cch:
                    h = cch
                c["cccd_h"] = h
                c["cccd_ord"] = cccd_ord
                cccd_ord += 1
                attrs.append({"handle": h, "kind": CCCD, "svc": si, "chr": cidx, "type": uuid_bytes(0x2902), "value": None})
                h += 1
            if ch.get("name") is not None:
                attrs.append({"handle": h, "kind": USER_DESC, "svc": si, "chr": cidx, "type": uuid_bytes(0x2901),
                              "value": list(ch["name"].encode())})
                h += 1
            for (du, db) in ch.get("descs", []):
                attrs.append({"handle": h, "kind": DESCRIPTOR, "svc": si, "chr": cidx, "type": uuid_bytes(du), "value": list(db)})
                h += 1
        svcs.append({"primary": s["primary"], "first": first, "last": h - 1, "uuid": uuid_bytes(s["uuid"]), "gap": bool(s.get("gap"))})
    for a in attrs:
        if a["kind"] == INCLUDE:
            t = svcs[a["inc"]]
            v = [t["first"] & 0xff, t["first"] >> 8, t["last"] & 0xff, t["last"] >> 8]
            if len(t["uuid"]) == 2:
                v += t["uuid"]
            a["value"] = v
    return {"attrs": attrs, "chars": chars, "svcs": svcs, "n_cccd": cccd_ord}


# --------------------------------------------------------------------------------------------
def c_bytes(bs):
    return "{ " + ", ".join("0x%02x" % b for b in bs) + " }" if bs else "{ 0 }"


def emit(d, seed=0):
    """returns header text"""
    m = build_model(d)
    rnd = random.Random(seed * 7919 + 13)
    L = []
    A = L.append
    A("// generated by vlib/declgen.py - declaration '%s'" % d["name"])
    A("#include <bluetoe/server.hpp>")
    A("#include <bluetoe/service.hpp>")
    A("#include <bluetoe/characteristic.hpp>")
    A("#include <bluetoe/descriptor.hpp>")
    A("#include <cstdint>\n#include <cstring>\n#include <cstddef>")
    A("namespace decl {")
    A("static const char declaration_name[] = \"%s\";" % d["name"])
    # ---- arena: all mutable memory of the declaration in one struct with guard bands
    user_chars = [c for c in m["chars"] if not c["gap"]]
    regions = []
    for i, c in enumerate(m["chars"]):
        if c["gap"]:
            continue
        k = c["kind"]
        if k in ("bound", "bound_const") or is_handler(k):
            ctype = {1: "std::uint8_t", 2: "std::uint16_t", 4: "std::uint32_t"}.get(c["size"]) if k.startswith("bound") else None
            if ctype and not c["src"].get("array"):
                A("%s v%d;" % (ctype, i))
            else:
                A("std::uint8_t v%d[%d];" % (i, c["size"]))
            regions.append((i, c["size"]))
    A("struct region { std::uint8_t* p; std::size_t n; int chr; };")
    A("static const region regions[] = { %s { nullptr, 0, -1 } };" % " ".join(
        "{ reinterpret_cast< std::uint8_t* >( &v%d ), %d, %d }," % (i, n, i) for i, n in regions))
    A("static const std::size_t n_regions = %d;" % len(regions))
    A("unsigned long handler_calls = 0;")
    A("unsigned long cccd_callbacks = 0;")
    # const bound values live outside the (mutable) arena but are compared as well
    for i, c in enumerate(m["chars"]):
        if c["gap"]:
            continue
        k = c["kind"]
        if k == "cstring":
            A("static constexpr char text%d[] = \"%s\";" % (i, c["src"]["text"]))
        elif k == "blob":
            A("static constexpr std::uint8_t blob%d[%d] = %s;" % (i, max(1, len(c["src"]["bytes"])), c_bytes(c["src"]["bytes"])))
        if c["src"].get("name") is not None:
            A("static constexpr char cname%d[] = \"%s\";" % (i, c["src"]["name"]))
        for j, (du, db) in enumerate(c["src"].get("descs", [])):
            A("static constexpr std::uint8_t desc%d_%d[%d] = %s;" % (i, j, max(1, len(db)), c_bytes(db)))
    if d.get("server_name") is not None:
        A("static constexpr char srv_name[] = \"%s\";" % d["server_name"])
    if d.get("custom_adv") is not None:
        A("static constexpr std::uint8_t custom_adv[%d] = %s;" % (max(1, len(d["custom_adv"])), c_bytes(d["custom_adv"])))
    if d.get("custom_scan") is not None:
        A("static constexpr std::uint8_t custom_scan[%d] = %s;" % (max(1, len(d["custom_scan"])), c_bytes(d["custom_scan"])))
    # ---- handlers: semantics defined here: a value of fixed size N stored in the arena
    A("""
static std::uint8_t h_read( std::uint8_t* mem, std::size_t n, std::size_t offset, std::size_t read_size, std::uint8_t* out, std::size_t& out_size )
{
    ++handler_calls;
    if ( offset > n ) return 0x07;
    out_size = n - offset < read_size ? n - offset : read_size;
    if ( out_size ) std::memcpy( out, mem + offset, out_size );
    return 0;
}
static std::uint8_t h_write( std::uint8_t* mem, std::size_t n, std::size_t offset, std::size_t write_size, const std::uint8_t* value )
{
    ++handler_calls;
    if ( offset > n ) return 0x07;
    if ( offset + write_size > n ) return 0x0d;
    if ( write_size ) std::memcpy( mem + offset, value, write_size );
    return 0;
}""")
    mixin_needed = False
    for i, c in enumerate(m["chars"]):
        if c["gap"]:
            continue
        k = c["kind"]
        n = c["size"]
        if k in ("h_r", "h_rw"):
            A("static std::uint8_t rd%d( std::size_t rs, std::uint8_t* o, std::size_t& os ) { return h_read( v%d, %d, 0, rs, o, os ); }" % (i, i, n))
        if k in ("h_w", "h_rw"):
            A("static std::uint8_t wr%d( std::size_t ws, const std::uint8_t* v ) { return h_write( v%d, %d, 0, ws, v ); }" % (i, i, n))
        if k in ("hb_r", "hb_rw"):
            A("static std::uint8_t rd%d( std::size_t off, std::size_t rs, std::uint8_t* o, std::size_t& os ) { return h_read( v%d, %d, off, rs, o, os ); }" % (i, i, n))
        if k in ("hb_w", "hb_rw"):
            A("static std::uint8_t wr%d( std::size_t off, std::size_t ws, const std::uint8_t* v ) { return h_write( v%d, %d, off, ws, v ); }" % (i, i, n))
        if k == "m_rw":
            mixin_needed = True
    if mixin_needed:
        A("struct mixin_t {")
        for i, c in enumerate(m["chars"]):
            if c["kind"] == "m_rw":
                A("    std::uint8_t rd%d( std::size_t off, std::size_t rs, std::uint8_t* o, std::size_t& os ) { return h_read( v%d, %d, off, rs, o, os ); }" % (i, i, c["size"]))
                A("    std::uint8_t wr%d( std::size_t off, std::size_t ws, const std::uint8_t* v ) { return h_write( v%d, %d, off, ws, v ); }" % (i, i, c["size"]))
        A("};")
    if d.get("cccd_cb"):
        A("struct cccd_cb_t { template < class S > void client_characteristic_configuration_updated( S&, const bluetoe::details::client_characteristic_configuration& ) { ++cccd_callbacks; } };")
        A("cccd_cb_t cccd_cb;")

    # ---- the server type
    def char_cpp(gi, c):
        ch = c["src"]
        parts = []
        if ch["uuid"] is not None:
            parts.append(cpp_uuid(ch["uuid"], "characteristic"))
        k = c["kind"]
        n = c["size"]
        if k in ("bound", "bound_const"):
            ctype = {1: "std::uint8_t", 2: "std::uint16_t", 4: "std::uint32_t"}.get(n)
            if not ctype or ch.get("array"):
                ctype = "std::uint8_t[%d]" % n
                T = "decltype( decl::v%d )" % gi
            else:
                T = ctype
            if k == "bound_const":
                parts.append("bluetoe::bind_characteristic_value< const %s, &decl::v%d >" % (T, gi))
            else:
                parts.append("bluetoe::bind_characteristic_value< %s, &decl::v%d >" % (T, gi))
        elif k == "fixed8":
            parts.append("bluetoe::fixed_uint8_value< 0x%02x >" % ch["fixed"])
        elif k == "fixed16":
            parts.append("bluetoe::fixed_uint16_value< 0x%04x >" % ch["fixed"])
        elif k == "fixed32":
            parts.append("bluetoe::fixed_uint32_value< 0x%08x >" % ch["fixed"])
        elif k == "cstring":
            parts.append("bluetoe::cstring_value< decl::text%d >" % gi)
        elif k == "blob":
            parts.append("bluetoe::fixed_blob_value< decl::blob%d, %d >" % (gi, len(ch["bytes"])))
        else:
            if k in ("h_r", "h_rw"):
                parts.append("bluetoe::free_read_handler< &decl::rd%d >" % gi)
            if k in ("h_w", "h_rw"):
                parts.append("bluetoe::free_raw_write_handler< &decl::wr%d >" % gi)
            if k in ("hb_r", "hb_rw"):
                parts.append("bluetoe::free_read_blob_handler< &decl::rd%d >" % gi)
            if k in ("hb_w", "hb_rw"):
                parts.append("bluetoe::free_write_blob_handler< &decl::wr%d >" % gi)
            if k == "m_rw":
                parts.append("bluetoe::mixin_read_blob_handler< decl::mixin_t, &decl::mixin_t::rd%d >" % gi)
                parts.append("bluetoe::mixin_write_blob_handler< decl::mixin_t, &decl::mixin_t::wr%d >" % gi)
        o = ch["opts"]
        for name, cpp in (("no_read", "bluetoe::no_read_access"), ("no_write", "bluetoe::no_write_access"),
                          ("wwr", "bluetoe::write_without_response"), ("only_wwr", "bluetoe::only_write_without_response"),
                          ("notify", "bluetoe::notify"), ("indicate", "bluetoe::indicate")):
            if name in o:
                parts.append(cpp)
        if ch.get("name") is not None:
            parts.append("bluetoe::characteristic_name< decl::cname%d >" % gi)
        for j, (du, db) in enumerate(ch.get("descs", [])):
            parts.append("bluetoe::descriptor< 0x%04x, decl::desc%d_%d, %d >" % (du, gi, j, len(db)))
        if ch.get("handles"):
            parts.append("bluetoe::attribute_handles< 0x%04x, 0x%04x, 0x%04x >" % tuple(ch["handles"]))
        elif ch.get("handle"):
            parts.append("bluetoe::attribute_handle< 0x%04x >" % ch["handle"])
        if ch.get("enc"):
            parts.append(ENC_OPT[ch["enc"]])
        return "bluetoe::characteristic<\n            " + ",\n            ".join(parts) + " >"

    A("} // namespace decl")
    sv = []
    gi = 0
    for si, s in enumerate(d["services"]):
        parts = [cpp_uuid(s["uuid"], "service")]
        if not s["primary"]:
            parts.append("bluetoe::is_secondary_service")
        if s.get("handle"):
            parts.append("bluetoe::attribute_handle< 0x%04x >" % s["handle"])
        for inc in s.get("includes", []):
            parts.append("bluetoe::include_service< %s >" % cpp_uuid(d["services"][inc]["uuid"], "service"))
        if s.get("enc"):
            parts.append(ENC_OPT[s["enc"]])
        for ci, ch in enumerate(s["chars"]):
            parts.append(char_cpp(gi, m["chars"][gi]))
            gi += 1
        if s.get("prio"):
            kind, idxs = s["prio"]
            parts.append("bluetoe::%s_outgoing_priority< %s >" % (kind, ", ".join(cpp_uuid(s["chars"][i]["uuid"], "characteristic") for i in idxs)))
        sv.append("    bluetoe::service<\n        " + ",\n        ".join(parts) + " >")
    so = list(sv)
    if d.get("mtu"):
        so.append("    bluetoe::max_mtu_size< %d >" % d["mtu"])
    if d.get("wq"):
        so.append("    bluetoe::shared_write_queue< %d >" % d["wq"])
    if d.get("enc"):
        so.append("    " + ENC_OPT[d["enc"]])
    if d.get("server_name") is not None:
        so.append("    bluetoe::server_name< decl::srv_name >")
    if d.get("appearance") is not None:
        so.append("    bluetoe::device_appearance< 0x%04x >" % d["appearance"])
    if d.get("adv_appearance"):
        so.append("    bluetoe::advertise_appearance")
    if not d.get("gap", True):
        so.append("    bluetoe::no_gap_service_for_gatt_servers")
    if d.get("cccd_cb"):
        so.append("    bluetoe::client_characteristic_configuration_update_callback< decl::cccd_cb_t, decl::cccd_cb >")
    if d.get("list16") == "none":
        so.append("    bluetoe::no_list_of_service_uuids")
    elif d.get("list16") is not None:
        so.append("    bluetoe::list_of_16_bit_service_uuids< %s >" % ", ".join(cpp_uuid(u, "service") for u in d["list16"]))
    if d.get("list128") is not None and d.get("list16") != "none":
        so.append("    bluetoe::list_of_128_bit_service_uuids< %s >" % ", ".join(cpp_uuid(u, "service") for u in d["list128"]))
    if d.get("interval"):
        so.append("    bluetoe::peripheral_connection_interval_range< 0x%04x, 0x%04x >" % tuple(d["interval"]))
    if d.get("custom_adv") is not None:
        so.append("    bluetoe::custom_advertising_data< %d, decl::custom_adv >" % max(1, len(d["custom_adv"])))
    if d.get("custom_scan") is not None:
        so.append("    bluetoe::custom_scan_response_data< %d, decl::custom_scan >" % max(1, len(d["custom_scan"])))
    if mixin_needed:
        so.append("    bluetoe::mixin< decl::mixin_t >")
    if d.get("prio"):
        kind, idxs = d["prio"]
        so.append("    bluetoe::%s_outgoing_priority< %s >" % (kind, ", ".join(cpp_uuid(d["services"][i]["uuid"], "service") for i in idxs)))
    A("typedef bluetoe::server<\n" + ",\n".join(so) + "\n> server_t;")
    A("#include \"att/model_types.hpp\"")
    A("namespace decl {")
    # ---- thunks (by-uuid requests address the FIRST characteristic with that uuid: only generated for unique uuids)
    def uniq(c):
        return c["src"]["uuid"] is not None and sum(1 for o in m["chars"] if o["uuid"] == c["uuid"]) == 1

    for i, c in enumerate(m["chars"]):
        ch = c["src"]
        explicit = uniq(c)
        if c["notify"] or c["indicate"]:
            U = cpp_uuid(ch["uuid"], "characteristic") if explicit else None
            if c["kind"] == "bound":
                if c["notify"]:
                    A("static bool nv%d( server_t& s ) { return s.notify( v%d ); }" % (i, i))
                if c["indicate"]:
                    A("static bool iv%d( server_t& s ) { return s.indicate( v%d ); }" % (i, i))
            if U:
                if c["notify"]:
                    A("static bool nu%d( server_t& s ) { return s.notify< %s >(); }" % (i, U))
                    A("static bool cn%d( server_t& s, const bluetoe::details::client_characteristic_configuration& c ) { return s.configured_for_notifications< %s >( c ); }" % (i, U))
                if c["indicate"]:
                    A("static bool iu%d( server_t& s ) { return s.indicate< %s >(); }" % (i, U))
                    A("static bool ci%d( server_t& s, const bluetoe::details::client_characteristic_configuration& c ) { return s.configured_for_indications< %s >( c ); }" % (i, U))
                A("static bool ca%d( server_t& s, const bluetoe::details::client_characteristic_configuration& c ) { return s.configured_for_notifications_or_indications< %s >( c ); }" % (i, U))

    def th(cond, name):
        return name if cond else "nullptr"

    def fixed_bytes(c):
        ch = c["src"]
        if c["kind"] == "cstring":
            return list(ch["text"].encode())
        if c["kind"] == "blob":
            return list(ch["bytes"])
        return list(int(ch["fixed"]).to_bytes(c["size"], "little"))

    for i, c in enumerate(m["chars"]):
        if not (c["kind"] in ("bound", "bound_const") or is_handler(c["kind"])):
            fb = fixed_bytes(c)
            A("static const std::uint8_t fixed_value_%d[%d] = %s;" % (i, max(1, len(fb)), c_bytes(fb)))
    A("static const model::chr chars[] = {")
    for i, c in enumerate(m["chars"]):
        ch = c["src"]
        explicit = uniq(c)
        k = c["kind"]
        in_arena = k in ("bound", "bound_const") or is_handler(k)
        vk = "model::V_BOUND" if k in ("bound", "bound_const") else ("model::V_HANDLER" if is_handler(k) else "model::V_FIXED")
        mem = ("reinterpret_cast< std::uint8_t* >( &v%d )" % i) if in_arena else "nullptr"
        fixed = "nullptr" if in_arena else "fixed_value_%d" % i
        nvb = c["kind"] == "bound"
        A("    { %d, 0x%04x, 0x%04x, 0x%04x, 0x%02x, %s, %d, %s, %s, %s, %s, %d, %s, %s, %s, %s, %s, %d, %s, %s, %s, %s, %s, %s, %s, %s }," % (
            c["svc"], c["decl_h"], c["value_h"], c["cccd_h"], c["props"], "true" if c["enc"] else "false",
            len(c["uuid"]), c_bytes(c["uuid"]), vk, mem, fixed, c["size"],
            "true" if c["readable"] else "false", "true" if c["writable"] else "false", "true" if c["blob"] else "false",
            "true" if c["notify"] else "false", "true" if c["indicate"] else "false", c["cccd_ord"],
            "true" if c["only_wwr"] else "false",
            th(c["notify"] and nvb, "&nv%d" % i), th(c["notify"] and explicit, "&nu%d" % i),
            th(c["indicate"] and nvb, "&iv%d" % i), th(c["indicate"] and explicit, "&iu%d" % i),
            th(c["notify"] and explicit, "&cn%d" % i), th(c["indicate"] and explicit, "&ci%d" % i),
            th((c["notify"] or c["indicate"]) and explicit, "&ca%d" % i)))
    A("};")
    A("static const std::size_t n_chars = %d;" % len(m["chars"]))
    for i, a in enumerate(m["attrs"]):
        if a["value"] is not None:
            A("static const std::uint8_t attr_value_%d[%d] = %s;" % (i, max(1, len(a["value"])), c_bytes(a["value"])))
    A("static const model::attr attrs[] = {")
    for i, a in enumerate(m["attrs"]):
        A("    { 0x%04x, %d, %d, %d, %d, %s, %s, %d }," % (
            a["handle"], a["kind"], a["chr"], a["svc"], len(a["type"]), c_bytes(a["type"]),
            ("attr_value_%d" % i) if a["value"] is not None else "nullptr", len(a["value"]) if a["value"] is not None else 0))
    A("};")
    A("static const std::size_t n_attrs = %d;" % len(m["attrs"]))
    A("static const model::svc svcs[] = {")
    for s in m["svcs"]:
        A("    { %s, 0x%04x, 0x%04x, %d, %s, %s }," % ("true" if s["primary"] else "false", s["first"], s["last"], len(s["uuid"]), c_bytes(s["uuid"]), "true" if s["gap"] else "false"))
    A("};")
    A("static const std::size_t n_svcs = %d;" % len(m["svcs"]))
    A("static const std::size_t n_cccd = %d;" % m["n_cccd"])
    A("static const std::size_t max_mtu = %d;" % (d.get("mtu") or 23))
    A("static const std::size_t write_queue_size = %d;" % (d.get("wq") or 0))
    A("static const bool has_cccd_callback = %s;" % ("true" if d.get("cccd_cb") else "false"))
    # ---- advertising model
    adv = adv_model(d, m)
    A("static const model::adv adv_model = { %s, %s, %s, %d, %s, %d, %s, %s, %d, %s, %d, %s, %d, %s, %d, %s, 0x%04x, 0x%04x, %s, %s, %d, %s, %s, %d };" % (
        "true" if adv["auto_adv"] else "false",
        "true" if adv["appearance"] is not None else "false", "0x%04x" % (adv["appearance"] or 0),
        len(adv["name"]) if adv["name"] is not None else -1, "\"%s\"" % (adv["name"] or ""),
        len(adv["must16"]) // 2, c_bytes(adv["must16"]), c_bytes(adv["may16"]), len(adv["may16"]) // 2,
        c_bytes(adv["must128"]), len(adv["must128"]) // 16, c_bytes(adv["may128"]), len(adv["may128"]) // 16,
        "true" if adv["lists"] else "false", 0,
        "true" if adv["interval"] else "false", adv["interval"][0] if adv["interval"] else 0, adv["interval"][1] if adv["interval"] else 0,
        "true" if adv["custom_adv"] is not None else "false", c_bytes(adv["custom_adv"] or []), len(adv["custom_adv"] or []),
        "true" if adv["custom_scan"] is not None else "false", c_bytes(adv["custom_scan"] or []), len(adv["custom_scan"] or [])))
    A("} // namespace decl")
    return "\n".join(L) + "\n"


def adv_model(d, m):
    """What the advertising payload may/must announce, from the declaration."""
    user16 = [s["uuid"] for s in m["svcs"] if len(s["uuid"]) == 2 and not s["gap"]]
    all16 = [s["uuid"] for s in m["svcs"] if len(s["uuid"]) == 2]
    all128 = [s["uuid"] for s in m["svcs"] if len(s["uuid"]) == 16]
    lists = d.get("list16") != "none"
    if d.get("list16") not in (None, "none"):
        must16 = [uuid_bytes(u) for u in d["list16"]]
        may16 = must16
    else:
        must16, may16 = user16, all16
    if d.get("list128") is not None:
        must128 = [uuid_bytes(u) for u in d["list128"]]
        may128 = must128
    else:
        must128 = may128 = all128
    flat = lambda l: [b for u in l for b in u]
    return {"auto_adv": d.get("custom_adv") is None,
            "appearance": (d.get("appearance") or 0) if d.get("adv_appearance") else None,
            "name": d.get("server_name"),
            "must16": flat(must16) if lists else [], "may16": flat(may16) if lists else [],
            "must128": flat(must128) if lists else [], "may128": flat(may128) if lists else [],
            "lists": lists, "interval": d.get("interval"),
            "custom_adv": list(d["custom_adv"]) if d.get("custom_adv") is not None else None,
            "custom_scan": list(d["custom_scan"]) if d.get("custom_scan") is not None else None}
