"""Driver core: content-addressed builds from /repo's working tree, parallel harness runs, JSON-lines
collection, sanitizer report parsing, known-finding matching, evidence writing, verdicts."""
import concurrent.futures as cf
import fnmatch
import hashlib
import json
import os
import re
import shutil
import subprocess
import sys
import time

VERIF = os.path.dirname(os.path.dirname(os.path.abspath(__file__)))
REPO = os.environ.get("VERIF_REPO", "/repo")
BUILD_DIR = os.path.join(VERIF, "build")
# evidence/replay of runs aimed at a scratch copy (self-test) never overwrite the real ones
_SCRATCH = os.path.realpath(REPO) != "/repo" or bool(os.environ.get("VERIF_ATT_DECLS")) or bool(os.environ.get("VERIF_PREFLIGHT_CACHE"))
EVIDENCE_DIR = os.path.join(VERIF, "build", "scratch_evidence") if _SCRATCH else os.path.join(VERIF, "evidence")
REPLAY_DIR = os.path.join(VERIF, "build", "scratch_replay") if _SCRATCH else os.path.join(VERIF, "replay")
JOBS = int(os.environ.get("VERIF_JOBS", "16"))
try:
    # several checks (or agents developing them) running at once: do not oversubscribe the 16 cores
    if "VERIF_JOBS" not in os.environ and os.getloadavg()[0] > 24:
        JOBS = 4
except OSError:
    pass
BUILD_CACHE_CAP = 4 << 30

GUARD = "BLUETOE_VERIF_HOOKS"

REPO_INCLUDES = [
    "", "bluetoe/link_layer/include", "bluetoe/utility/include", "bluetoe/sm/include",
    "bluetoe/hci/include", "bluetoe/bindings/nordic/include", "bluetoe/link_layer",
]

SAN_FLAGS = ["-fsanitize=address,undefined", "-fno-sanitize-recover=all", "-fno-omit-frame-pointer"]
TSAN_FLAGS = ["-fsanitize=thread", "-fno-omit-frame-pointer"]

SAN_ENV = {
    "ASAN_OPTIONS": "abort_on_error=1:detect_leaks=0:detect_stack_use_after_return=1:handle_abort=0:allocator_may_return_null=1",
    "UBSAN_OPTIONS": "print_stacktrace=1:abort_on_error=1:halt_on_error=1",
    "TSAN_OPTIONS": "halt_on_error=0:second_deadlock_stack=1:report_signal_unsafe=0",
}


class Inconclusive(Exception):
    pass


def sha(*parts):
    h = hashlib.sha256()
    for p in parts:
        if isinstance(p, str):
            p = p.encode()
        h.update(p)
        h.update(b"\0")
    return h.hexdigest()


_tree_hash_cache = {}


def tree_hash(root, subdirs, exts=(".hpp", ".cpp", ".h", ".c", ".inc", ".py", ".json")):
    key = (root, tuple(subdirs))
    if key in _tree_hash_cache:
        return _tree_hash_cache[key]
    h = hashlib.sha256()
    for sub in subdirs:
        base = os.path.join(root, sub)
        if os.path.isfile(base):
            files = [base]
        else:
            files = []
            for d, dn, fn in os.walk(base):
                dn.sort()
                for f in sorted(fn):
                    if f.endswith(exts):
                        files.append(os.path.join(d, f))
        for f in files:
            h.update(os.path.relpath(f, root).encode())
            with open(f, "rb") as fh:
                h.update(hashlib.sha256(fh.read()).digest())
    r = h.hexdigest()
    _tree_hash_cache[key] = r
    return r


def repo_hash():
    return tree_hash(REPO, ["bluetoe", "tests/test_tools"])


def harness_hash(dirs=()):
    return tree_hash(VERIF, ["harness/common", "hooks", "stubs", "refimpl"] + sorted(set(dirs)))


class Build:
    """One executable built from harness sources against REPO's current working tree."""

    def __init__(self, name, sources, flags=None, std="c++11", compiler="g++", sanitizer="asan",
                 hooks=True, opt="-O1", ndebug=True, libs=None, includes=None, c_sources=None,
                 mem_limit_kb=6 * 1024 * 1024, extra_key=""):
        self.name = name
        self.sources = [s if os.path.isabs(s) else os.path.join(VERIF, s) for s in sources]
        self.c_sources = [s if os.path.isabs(s) else os.path.join(VERIF, s) for s in (c_sources or [])]
        self.flags = list(flags or [])
        self.std = std
        self.compiler = compiler
        self.sanitizer = sanitizer
        self.hooks = hooks
        self.opt = opt
        self.ndebug = ndebug
        self.libs = list(libs or [])
        self.includes = list(includes or [])
        self.mem_limit_kb = mem_limit_kb
        self.extra_key = extra_key
        self.path = None
        self.error = None
        self.cached = False
        self.build_s = 0.0

    def san_flags(self):
        if self.sanitizer == "asan":
            f = list(SAN_FLAGS)
            if self.compiler.startswith("clang"):
                f.append("-fno-sanitize=object-size")
            return f
        if self.sanitizer == "tsan":
            return list(TSAN_FLAGS)
        return []

    def command(self, out, objs=()):
        cmd = [self.compiler, "-std=" + self.std, self.opt, "-g"]
        if self.ndebug:
            cmd.append("-DNDEBUG")
        cmd += self.san_flags()
        if self.hooks:
            cmd += ["-D" + GUARD, "-I" + os.path.join(VERIF, "hooks")]
        cmd += ["-I" + os.path.join(VERIF, "harness"), "-I" + os.path.join(VERIF, "refimpl")]
        for i in self.includes:
            cmd.append("-I" + (i if os.path.isabs(i) else os.path.join(VERIF, i)))
        for i in REPO_INCLUDES:
            cmd.append("-I" + os.path.join(REPO, i))
        cmd += ["-include", "iterator", "-include", "cstring", "-include", "cstdint", "-w"]
        cmd += self.flags
        cmd += self.sources
        cmd += list(objs)
        cmd += ["-o", out] + self.libs
        return cmd

    def cmd_key(self):
        return sha(" ".join(self.command("OUT") + self.c_sources), self.extra_key)[:24]

    def key(self):
        dirs = [os.path.relpath(os.path.dirname(x), VERIF) for x in self.sources if x.startswith(VERIF + "/")]
        return sha(" ".join(self.command("OUT") + self.c_sources), repo_hash(), harness_hash(dirs), self.extra_key)[:24]


def _prune_cache():
    try:
        entries = []
        total = 0
        for d in os.listdir(BUILD_DIR):
            p = os.path.join(BUILD_DIR, d)
            if not os.path.isdir(p) or d in ("deps", "gen", "scratch_evidence", "scratch_replay"):
                continue
            size = sum(os.path.getsize(os.path.join(p, f)) for f in os.listdir(p) if os.path.isfile(os.path.join(p, f)))
            entries.append((os.path.getmtime(p), p, size))
            total += size
        entries.sort()
        while total > BUILD_CACHE_CAP and entries:
            _, p, size = entries.pop(0)
            shutil.rmtree(p, ignore_errors=True)
            total -= size
    except OSError:
        pass


def _parse_depfile(path):
    try:
        txt = open(path).read()
    except OSError:
        return []
    txt = txt.replace("\\\n", " ")
    files = []
    for part in txt.split(":", 1)[-1].split():
        part = part.strip()
        if part and (part.startswith(REPO + "/") or part.startswith(VERIF + "/")) and "/build/" not in part.replace(GEN_MARK, ""):
            files.append(part)
        elif part and GEN_MARK in part:
            files.append(part)
    return sorted(set(files))


GEN_MARK = "/build/gen/"


def _files_hash(files):
    h = hashlib.sha256()
    for f in files:
        h.update(f.encode())
        try:
            with open(f, "rb") as fh:
                h.update(hashlib.sha256(fh.read()).digest())
        except OSError:
            h.update(b"missing")
    return h.hexdigest()


def do_build(b):
    """Content addressed build. Stage 1 key: the command line; the dependency list recorded by the compiler (-MMD) at
    the first build gives the stage 2 key over exactly the files the binary is made of, so an edit in /repo only
    rebuilds the harnesses that include the edited file."""
    os.makedirs(BUILD_DIR, exist_ok=True)
    deps_dir = os.path.join(BUILD_DIR, "deps")
    os.makedirs(deps_dir, exist_ok=True)
    k1 = sha(" ".join(b.command("OUT") + b.c_sources), b.extra_key, os.path.realpath(REPO))[:24]
    deps_path = os.path.join(deps_dir, k1 + ".json")
    if os.path.exists(deps_path):
        try:
            files = json.load(open(deps_path))
            k2 = sha(k1, _files_hash(files))[:24]
            out = os.path.join(BUILD_DIR, k2, b.name)
            if os.path.exists(out) and os.path.exists(out + ".ok"):
                b.path = out
                b.cached = True
                try:
                    os.utime(os.path.join(BUILD_DIR, k2), None)
                except OSError:
                    pass
                return b
        except (ValueError, OSError):
            pass
    d = os.path.join(BUILD_DIR, "tmp_%s_%d" % (k1, os.getpid()))
    shutil.rmtree(d, ignore_errors=True)
    os.makedirs(d, exist_ok=True)
    out = os.path.join(d, b.name)
    t0 = time.time()
    objs = []
    depfiles = []
    # C sources (uECC) are compiled separately with the C compiler
    for cs in b.c_sources:
        o = os.path.join(d, os.path.basename(cs) + ".o")
        cc = "gcc" if b.compiler.startswith("g++") else "clang-14"
        df = o + ".d"
        ccmd = [cc, b.opt, "-g", "-c", cs, "-o", o, "-w", "-MMD", "-MF", df] + b.san_flags() + [f for f in b.flags if f.startswith("-I") or f.startswith("-D")]
        for i in b.includes:
            ccmd.append("-I" + (i if os.path.isabs(i) else os.path.join(VERIF, i)))
        for i in REPO_INCLUDES:
            ccmd.append("-I" + os.path.join(REPO, i))
        r = subprocess.run(ccmd, capture_output=True, text=True)
        if r.returncode != 0:
            b.error = r.stderr[-4000:]
            shutil.rmtree(d, ignore_errors=True)
            return b
        objs.append(o)
        depfiles.append(df)
    cmd = b.command(out, objs)
    df = out + ".d"
    # -MMD with several sources and -o writes one depfile per source next to the output: use -MD per source via -MF only for single source
    if len(b.sources) == 1:
        cmd = cmd[:1] + ["-MMD", "-MF", df] + cmd[1:]
        depfiles.append(df)
    shell = "ulimit -v %d; exec \"$@\"" % b.mem_limit_kb
    r = subprocess.run(["bash", "-c", shell, "bash"] + cmd, capture_output=True, text=True)
    b.build_s = time.time() - t0
    if r.returncode != 0:
        b.error = (r.stderr or r.stdout)[-6000:]
        shutil.rmtree(d, ignore_errors=True)
        return b
    files = set(b.sources + b.c_sources)
    if len(b.sources) == 1:
        for f in depfiles:
            files.update(_parse_depfile(f))
    else:
        # several C++ sources: fall back to the whole tree as dependency set
        for root_dir, subs in ((REPO, ["bluetoe", "tests/test_tools"]), (VERIF, ["harness", "hooks", "stubs", "refimpl"])):
            for sub in subs:
                for dd, dn, fn in os.walk(os.path.join(root_dir, sub)):
                    for f in fn:
                        if f.endswith((".hpp", ".cpp", ".h", ".c", ".inc")):
                            files.add(os.path.join(dd, f))
    files = sorted(files)
    k2 = sha(k1, _files_hash(files))[:24]
    final = os.path.join(BUILD_DIR, k2)
    open(out + ".ok", "w").close()
    try:
        if os.path.exists(final):
            shutil.rmtree(final, ignore_errors=True)
        os.rename(d, final)
    except OSError:
        final = d
    with open(deps_path + ".tmp%d" % os.getpid(), "w") as f:
        json.dump(files, f)
    os.replace(deps_path + ".tmp%d" % os.getpid(), deps_path)
    b.path = os.path.join(final, b.name)
    return b


def build_all(builds, jobs=JOBS):
    uniq = {}
    for b in builds:
        uniq.setdefault(b.cmd_key(), b)
    with cf.ThreadPoolExecutor(max_workers=jobs) as ex:
        list(ex.map(do_build, uniq.values()))
    for b in builds:
        u = uniq[b.cmd_key()]
        b.path, b.error, b.cached, b.build_s = u.path, u.error, u.cached, u.build_s
    _prune_cache()
    return builds


class Run:
    def __init__(self, build, args=None, env=None, timeout=900, tag="", skippable=False, stdin=None, wrapper=None):
        self.build = build
        self.args = [str(a) for a in (args or [])]
        self.env = dict(env or {})
        self.timeout = timeout
        self.tag = tag or (build.name + " " + " ".join(self.args))
        self.skippable = skippable     # harness understands --skip=<step,step,...>
        self.stdin = stdin
        self.wrapper = wrapper or []   # e.g. valgrind
        # results
        self.events = []
        self.stderr = ""
        self.rc = None
        self.timed_out = False
        self.done = False
        self.crashes = []
        self.wall = 0.0

    def cmdline(self, skips=()):
        c = self.wrapper + [self.build.path] + self.args
        if skips:
            c.append("--skip=" + ",".join(str(s) for s in skips))
        return c


def _exec(run, skips=()):
    env = dict(os.environ)
    env.update(SAN_ENV)
    env.update(run.env)
    t0 = time.time()
    # VERIF_PREFLIGHT_CACHE=<dir>: developer aid only (never set by a registered command): the raw output of a run is kept per
    # (binary content, arguments, environment of the run) so that several properties decided from the same deterministic executions
    # (family A: one set of executions feeds C01..C11, C14) can be smoke-tested without executing them once per property
    cdir, cfile, hit = os.environ.get("VERIF_PREFLIGHT_CACHE"), None, None
    if cdir and run.stdin is None and not run.wrapper:
        h = hashlib.sha256()
        with open(run.build.path, "rb") as f:
            h.update(f.read())
        h.update(repr((run.args, sorted(run.env.items()), list(skips))).encode())
        cfile = os.path.join(cdir, h.hexdigest()[:32] + ".json")
        if os.path.exists(cfile):
            with open(cfile) as f:
                hit = json.load(f)
    try:
        if hit is not None:
            rc, out, err, to = hit["rc"], hit["out"].encode(), hit["err"].encode(), False
        else:
            p = subprocess.run(run.cmdline(skips), capture_output=True, env=env, timeout=run.timeout,
                               input=run.stdin)
            rc, out, err, to = p.returncode, p.stdout, p.stderr, False
            if cfile:
                os.makedirs(cdir, exist_ok=True)
                with open(cfile, "w") as f:
                    json.dump({"rc": rc, "out": out.decode("utf-8", "replace"), "err": err.decode("utf-8", "replace")}, f)
    except subprocess.TimeoutExpired as e:
        rc, out, err, to = None, e.stdout or b"", e.stderr or b"", True
    wall = time.time() - t0
    events = []
    for line in out.decode("utf-8", "replace").splitlines():
        line = line.strip()
        if not line.startswith("{"):
            continue
        try:
            events.append(json.loads(line))
        except ValueError:
            pass
    return rc, events, err.decode("utf-8", "replace"), to, wall


def parse_sanitizer(stderr):
    """Return (kind, site, summary) from an ASan/UBSan/TSan report, normalised so that line numbers and
    addresses do not enter the key."""
    if not stderr:
        return None
    kind = None
    m = re.search(r"ERROR: AddressSanitizer: ([a-zA-Z0-9_-]+)", stderr)
    if m:
        kind = "asan-" + m.group(1)
    else:
        m = re.search(r"runtime error: ([^\n]+)", stderr)
        if m:
            msg = m.group(1)
            msg = re.sub(r"0x[0-9a-f]+", "ADDR", msg)
            msg = re.sub(r"-?\d+", "N", msg)
            msg = re.sub(r"'[^']*'", "T", msg)
            msg = re.sub(r"[^A-Za-z]+", "_", msg).strip("_")[:60]
            kind = "ubsan-" + msg
        elif "ThreadSanitizer" in stderr:
            m = re.search(r"WARNING: ThreadSanitizer: ([^\(\n]+)", stderr)
            kind = "tsan-" + (re.sub(r"[^A-Za-z]+", "_", m.group(1)).strip("_") if m else "report")
        elif "AddressSanitizer" in stderr or "DEADLYSIGNAL" in stderr:
            kind = "asan-signal"
    if not kind:
        return None
    site = "unknown"
    # first frame inside the repository's bluetoe sources
    for fm in re.finditer(r"#\d+ 0x[0-9a-f]+ in (.+?) (/[^\s:]+):(\d+)", stderr):
        fn, path = fm.group(1), fm.group(2)
        if "/bluetoe/" in path and "/verif/" not in path:
            # inlining decides which function name a frame carries, so only the file is stable
            site = os.path.basename(path)
            break
    else:
        fm = re.search(r"(/[^\s:]*bluetoe/[^\s:]+):(\d+):(\d+): runtime error", stderr)
        if fm:
            site = os.path.basename(fm.group(1))
    summary = "\n".join(stderr.splitlines()[:40])
    return kind, site, summary


def exec_run(run, max_skips=12):
    """Run a harness; when it crashes and supports --skip, re-run skipping the crashing steps so one
    defect does not mask the rest."""
    skips = []
    while True:
        rc, events, err, to, wall = _exec(run, skips)
        run.wall += wall
        run.rc, run.stderr, run.timed_out = rc, err, to
        run.done = any(e.get("t") == "done" for e in events)
        crash_ev = [e for e in events if e.get("t") == "crash"]
        if run.done or to:
            run.events = events
            return run
        # abnormal end
        san = parse_sanitizer(err)
        ce = crash_ev[-1] if crash_ev else {}
        crash = {"prop": ce.get("prop", ""), "config": ce.get("config", ""), "step": ce.get("step"),
                 "op": ce.get("op", ""), "sig": ce.get("sig"), "rc": rc,
                 "kind": san[0] if san else (("hang" if ce.get("sig") == 26 else "signal-%s" % ce.get("sig")) if ce else "exit-%s" % rc),
                 "site": san[1] if san else "unknown",
                 "report": san[2] if san else err[-3000:], "skips": list(skips)}
        run.crashes.append(crash)
        step = ce.get("step")
        if run.skippable and step is not None and step not in skips and len(skips) < max_skips:
            skips.append(step)
            continue
        run.events = events
        return run


def run_all(runs, jobs=JOBS):
    with cf.ThreadPoolExecutor(max_workers=jobs) as ex:
        list(ex.map(exec_run, runs))
    return runs


# --------------------------------------------------------------------------------------------
def load_known():
    p = os.path.join(VERIF, "known_findings.json")
    if not os.path.exists(p):
        return []
    with open(p) as f:
        return json.load(f).get("findings", [])


class Spec:
    """What a property's check consists of."""

    def __init__(self, prop, level, rule, plan, floor=None, assumptions=None, crash_owner=False,
                 also_props=(), design_ref="", technique=""):
        self.prop = prop
        self.level = level
        self.rule = rule
        self.plan = plan            # fn(tier, seed) -> list[Run]
        self.floor = floor or {}
        self.assumptions = assumptions or []
        self.crash_owner = crash_owner   # crashes that no monitor claims are attributed to this property
        self.also_props = tuple(also_props)
        self.design_ref = design_ref
        self.technique = technique


def write_replay(prop, key, payload):
    os.makedirs(REPLAY_DIR, exist_ok=True)
    name = "%s-%s.json" % (prop, sha(key)[:10])
    path = os.path.join(REPLAY_DIR, name)
    with open(path, "w") as f:
        json.dump(payload, f, indent=1)
    return path


def execute(spec, tier, seed, replay=None):
    t0 = time.time()
    runs = spec.plan(tier, seed)
    if replay is not None:
        wanted = replay.get("run_tag")
        runs = [r for r in runs if r.tag == wanted] or runs
    builds = []
    seen = set()
    for r in runs:
        if id(r.build) not in seen:
            seen.add(id(r.build))
            builds.append(r.build)
    build_all(builds)
    failed = [b for b in builds if b.error]
    build_problems = []
    for b in failed:
        build_problems.append("build failed: %s: %s" % (b.name, (b.error or "").strip().splitlines()[-1:] or ""))
        sys.stderr.write("BUILD FAILED %s\n%s\n" % (b.name, b.error))
    runs = [r for r in runs if r.build.path]
    run_all(runs)

    prop = spec.prop
    agg = {"evaluations": 0, "distinct": set(), "classes": {}, "counters": {}, "samples": [],
           "exhaustive": None, "configs": 0}
    violations = {}   # key -> {"count", "detail", "run", "step", "config"}
    problems = list(build_problems)

    def add_violation(key, count, detail, run, step=None, config="", extra=None):
        v = violations.setdefault(key, {"count": 0, "detail": detail, "run_tag": run.tag,
                                        "cmd": run.cmdline(), "step": step, "config": config})
        v["count"] += count
        if extra:
            v.update(extra)

    for r in runs:
        if r.timed_out:
            problems.append("watchdog: %s exceeded %ss" % (r.tag, r.timeout))
        for c in r.crashes:
            # a crash belongs to the property whose workload step was executing; crashes outside any
            # step context belong to the family's memory-safety owner
            mine = (c["prop"] == prop) or (spec.crash_owner and not c["prop"])
            if mine:
                opword = re.sub(r"[^A-Za-z0-9_]+", "_", (c["op"] or "").split(" ")[0])[:40] or "unknown"
                key = "%s:crash:%s:%s:%s" % (prop, c["kind"], c["site"], opword)
                add_violation(key, 1, "sanitizer/crash at step %s op=%s" % (c["step"], c["op"]), r,
                              step=c["step"], config=c["config"], extra={"report": c["report"], "op": c["op"]})
        if not r.done and not r.timed_out and not r.crashes:
            problems.append("harness ended abnormally without report: %s rc=%s" % (r.tag, r.rc))
        if not r.done and r.crashes:
            # crashed and could not be completed by skipping: data of this run is incomplete
            if not any(c["prop"] == prop or (spec.crash_owner and not c["prop"]) for c in r.crashes):
                problems.append("run incomplete because of a crash attributed to another property: %s (%s)" % (
                    r.tag, r.crashes[-1]["kind"]))
        viol_detail = {}
        for e in r.events:
            if e.get("t") == "viol" and e.get("prop") == prop:
                viol_detail.setdefault(e["key"], e)
        for e in r.events:
            if e.get("t") == "mon" and e.get("prop") == prop:
                agg["configs"] += 1
                agg["evaluations"] += e.get("evaluations", 0)
                cfg = e.get("config", "")
                for h in e.get("distinct", []):
                    agg["distinct"].add(h)
                for k, v in e.get("classes", {}).items():
                    agg["classes"][k] = agg["classes"].get(k, 0) + v
                for k, v in e.get("counters", {}).items():
                    agg["counters"][k] = agg["counters"].get(k, 0) + v
                for s in e.get("samples", []):
                    if len(agg["samples"]) < 12:
                        agg["samples"].append(s)
                ex = bool(e.get("exhaustive"))
                agg["exhaustive"] = ex if agg["exhaustive"] is None else (agg["exhaustive"] and ex)
                for k, n in e.get("viol_keys", {}).items():
                    d = viol_detail.get(k, {})
                    add_violation(k, n, d.get("detail", ""), r, step=d.get("step"), config=d.get("config", cfg))

    # coverage floor
    fl = spec.floor
    if agg["evaluations"] < fl.get("min_evaluations", 1):
        problems.append("coverage floor: evaluations %d < %d" % (agg["evaluations"], fl.get("min_evaluations", 1)))
    if len(agg["distinct"]) < fl.get("min_distinct", 2):
        problems.append("coverage floor: distinct_nontrivial %d < %d" % (len(agg["distinct"]), fl.get("min_distinct", 2)))
    for c in fl.get("classes", []):
        if agg["classes"].get(c, 0) < 1:
            problems.append("coverage floor: class '%s' never exercised" % c)
    for c, n in fl.get("counters", {}).items():
        if agg["counters"].get(c, 0) < n:
            problems.append("coverage floor: counter '%s' = %d < %d" % (c, agg["counters"].get(c, 0), n))

    known = [k for k in load_known() if k.get("property") == prop and k.get("status") == "open"]
    known_hits, unknown = [], []
    for key, v in sorted(violations.items()):
        hit = None
        for k in known:
            if key == k["key"] or fnmatch.fnmatchcase(key, k["key"]):
                hit = k
                break
        if hit:
            known_hits.append((key, v, hit))
        else:
            unknown.append((key, v))

    lines = []
    for key, v, k in known_hits:
        lines.append("KNOWN-FINDING: property=%s %s [key=%s observed=%d]" % (prop, k["what"], key, v["count"]))
    seen_known = set()
    out_lines = []
    for l in lines:
        if l not in seen_known:
            seen_known.add(l)
            out_lines.append(l)
    replay_paths = []
    for key, v in unknown:
        payload = {"property": prop, "key": key, "tier": tier, "seed": seed, "repo": REPO}
        payload.update(v)
        path = write_replay(prop, key, payload)
        replay_paths.append(path)
        out_lines.append("VIOLATION property=%s replay=%s key=%s count=%d %s" % (prop, path, key, v["count"], (v.get("detail") or "")[:300]))

    verdict = "held"
    if unknown:
        verdict = "violated"
    elif problems:
        verdict = "inconclusive"
    elif known_hits:
        verdict = "held_except_known_findings"

    samples = agg["samples"] or []
    ev = {
        "property_id": prop, "tier": tier, "seed": seed, "level": spec.level,
        "coverage": {
            "evaluations": agg["evaluations"],
            "distinct_nontrivial": len(agg["distinct"]),
            "rule": spec.rule,
            "samples": samples,
            "exhaustive": bool(agg["exhaustive"]) if agg["exhaustive"] is not None else False,
            "classes": agg["classes"],
            "counters": agg["counters"],
            "harness_runs": len(runs),
            "monitor_reports": agg["configs"],
            "builds": [{"name": b.name, "sanitizer": b.sanitizer, "compiler": b.compiler, "cached": b.cached} for b in builds],
            "verdict": verdict,
            "problems": problems,
            "known_findings_observed": [{"key": k, "count": v["count"], "what": kk["what"]} for k, v, kk in known_hits],
            "violation_keys": [{"key": k, "count": v["count"], "detail": (v.get("detail") or "")[:500]} for k, v in unknown],
        },
        "assumptions": spec.assumptions,
        "wall_s": round(time.time() - t0, 2),
        "violations": len(unknown),
    }
    os.makedirs(EVIDENCE_DIR, exist_ok=True)
    if replay is None:
        with open(os.path.join(EVIDENCE_DIR, prop + ".json"), "w") as f:
            json.dump(ev, f, indent=1, sort_keys=True)
            f.write("\n")
    for l in out_lines:
        print(l)
    print("%s %s tier=%s seed=%d evaluations=%d distinct_nontrivial=%d runs=%d wall=%.1fs verdict=%s" % (
        prop, spec.level, tier, seed, agg["evaluations"], len(agg["distinct"]), len(runs), time.time() - t0, verdict))
    if verdict == "violated":
        return 1
    if verdict == "inconclusive":
        for p in problems:
            print("INCONCLUSIVE: " + p)
        return 2
    return 0
