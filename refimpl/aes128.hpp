// Reference AES-128 encryption, written from FIPS-197 (no table copied: the S-box is derived at start-up
// from its definition, multiplicative inverse in GF(2^8) followed by the affine transformation, 5.1.1).
// Independent of Bluetoe and of every AES in /repo.  Header-only, C++11.
//
// Byte order: `aes128_encrypt` uses the FIPS-197 order (key[0]/in[0] is the first byte of the FIPS-197
// hex strings = most significant octet in Bluetooth's notation).  `aes128_le` is the Bluetooth security
// function e (Core Vol 3 Part H 2.2.1) on little-endian arrays (index 0 = least significant octet), which is
// how Bluetoe's API, SMP and the LL carry 128-bit values.
#ifndef VERIF_REFIMPL_AES128_HPP
#define VERIF_REFIMPL_AES128_HPP

#include <cstdint>
#include <cstddef>
#include <array>

namespace refimpl {

typedef std::array<std::uint8_t, 16> u128;   // 128-bit value; the byte order is stated per function

namespace aes_detail {

    inline std::uint8_t xtime(std::uint8_t a) { return static_cast<std::uint8_t>((a << 1) ^ ((a & 0x80) ? 0x1b : 0x00)); }

    // multiplication in GF(2^8) modulo x^8 + x^4 + x^3 + x + 1 (FIPS-197 4.2)
    inline std::uint8_t gmul(std::uint8_t a, std::uint8_t b) {
        std::uint8_t r = 0;
        while (b) {
            if (b & 1) r ^= a;
            a = xtime(a);
            b >>= 1;
        }
        return r;
    }

    struct sbox_t {
        std::uint8_t s[256];
        sbox_t() {
            for (int x = 0; x < 256; ++x) {
                // multiplicative inverse (0 maps to 0): brute force, done once
                std::uint8_t inv = 0;
                if (x) {
                    for (int y = 1; y < 256; ++y) {
                        if (gmul(static_cast<std::uint8_t>(x), static_cast<std::uint8_t>(y)) == 1) { inv = static_cast<std::uint8_t>(y); break; }
                    }
                }
                // affine transformation: b'_i = b_i ^ b_(i+4) ^ b_(i+5) ^ b_(i+6) ^ b_(i+7) ^ c_i, c = 0x63
                std::uint8_t r = 0;
                for (int i = 0; i < 8; ++i) {
                    const int bit = ((inv >> i) ^ (inv >> ((i + 4) & 7)) ^ (inv >> ((i + 5) & 7)) ^ (inv >> ((i + 6) & 7))
                                     ^ (inv >> ((i + 7) & 7)) ^ (0x63 >> i)) & 1;
                    r = static_cast<std::uint8_t>(r | (bit << i));
                }
                s[x] = r;
            }
        }
    };

    inline const std::uint8_t* sbox() { static const sbox_t t; return t.s; }

} // namespace aes_detail

// FIPS-197 Cipher() with Nk = 4, Nr = 10.  State is column major: s[r][c] = in[r + 4c].
inline void aes128_encrypt(const std::uint8_t key[16], const std::uint8_t in[16], std::uint8_t out[16])
{
    using namespace aes_detail;
    const std::uint8_t* S = sbox();

    // KeyExpansion (5.2): 44 words, w[i] stored as 4 bytes
    std::uint8_t w[44][4];
    for (int i = 0; i < 4; ++i)
        for (int j = 0; j < 4; ++j) w[i][j] = key[4 * i + j];
    std::uint8_t rcon = 0x01;
    for (int i = 4; i < 44; ++i) {
        std::uint8_t t[4] = { w[i - 1][0], w[i - 1][1], w[i - 1][2], w[i - 1][3] };
        if (i % 4 == 0) {
            // RotWord, SubWord, xor Rcon
            const std::uint8_t t0 = t[0];
            t[0] = static_cast<std::uint8_t>(S[t[1]] ^ rcon);
            t[1] = S[t[2]];
            t[2] = S[t[3]];
            t[3] = S[t0];
            rcon = xtime(rcon);
        }
        for (int j = 0; j < 4; ++j) w[i][j] = static_cast<std::uint8_t>(w[i - 4][j] ^ t[j]);
    }

    std::uint8_t s[4][4];
    for (int c = 0; c < 4; ++c)
        for (int r = 0; r < 4; ++r) s[r][c] = static_cast<std::uint8_t>(in[r + 4 * c] ^ w[c][r]);   // AddRoundKey(0)

    for (int round = 1; round <= 10; ++round) {
        // SubBytes
        for (int r = 0; r < 4; ++r)
            for (int c = 0; c < 4; ++c) s[r][c] = S[s[r][c]];
        // ShiftRows: row r is rotated left by r
        for (int r = 1; r < 4; ++r) {
            std::uint8_t t[4];
            for (int c = 0; c < 4; ++c) t[c] = s[r][(c + r) & 3];
            for (int c = 0; c < 4; ++c) s[r][c] = t[c];
        }
        // MixColumns (not in the last round)
        if (round != 10) {
            for (int c = 0; c < 4; ++c) {
                const std::uint8_t a0 = s[0][c], a1 = s[1][c], a2 = s[2][c], a3 = s[3][c];
                s[0][c] = static_cast<std::uint8_t>(gmul(a0, 2) ^ gmul(a1, 3) ^ a2 ^ a3);
                s[1][c] = static_cast<std::uint8_t>(a0 ^ gmul(a1, 2) ^ gmul(a2, 3) ^ a3);
                s[2][c] = static_cast<std::uint8_t>(a0 ^ a1 ^ gmul(a2, 2) ^ gmul(a3, 3));
                s[3][c] = static_cast<std::uint8_t>(gmul(a0, 3) ^ a1 ^ a2 ^ gmul(a3, 2));
            }
        }
        // AddRoundKey
        for (int c = 0; c < 4; ++c)
            for (int r = 0; r < 4; ++r) s[r][c] = static_cast<std::uint8_t>(s[r][c] ^ w[4 * round + c][r]);
    }

    for (int c = 0; c < 4; ++c)
        for (int r = 0; r < 4; ++r) out[r + 4 * c] = s[r][c];
}

// u128 convenience, FIPS order (index 0 = most significant octet)
inline u128 aes128_be(const u128& key, const u128& data)
{
    u128 r;
    aes128_encrypt(key.data(), data.data(), r.data());
    return r;
}

inline u128 reversed(const u128& a)
{
    u128 r;
    for (int i = 0; i < 16; ++i) r[i] = a[15 - i];
    return r;
}

// Bluetooth security function e(key, plaintext) on little-endian arrays (index 0 = least significant octet):
// "The most significant octet of key corresponds to key[0] (FIPS), the most significant octet of
// plaintextData corresponds to in[0], the most significant octet of encryptedData corresponds to out[0]".
inline u128 aes128_le(const u128& key_le, const u128& data_le)
{
    return reversed(aes128_be(reversed(key_le), reversed(data_le)));
}

} // namespace refimpl

#endif
