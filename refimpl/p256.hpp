// Reference NIST P-256 (secp256r1) arithmetic: on-curve predicate, scalar multiplication, ECDH.
// Plain 256-bit big integers on 32-bit limbs, generic Montgomery multiplication (nothing specific to the
// prime), Jacobian double-and-add.  NOT constant time, NOT for production: an oracle only.
// Independent of micro-ecc (uECC) which is what Bluetoe uses.
//
// Curve (FIPS 186-4 D.1.2.3 / SEC2):  y^2 = x^3 - 3x + b  over GF(p)
//   p  = ffffffff 00000001 00000000 00000000 00000000 ffffffff ffffffff ffffffff
//   b  = 5ac635d8 aa3a93e7 b3ebbd55 769886bc 651d06b0 cc53b0f6 3bce3c3e 27d2604b
//   Gx = 6b17d1f2 e12c4247 f8bce6e5 63a440f2 77037d81 2deb33a0 f4a13945 d898c296
//   Gy = 4fe342e2 fe1a7f9b 8ee7eb4a 7c0f9e16 2bce3357 6b315ece cbb64068 37bf51f5
//   n  = ffffffff 00000000 ffffffff ffffffff bce6faad a7179e84 f3b9cac2 fc632551
//
// Byte order: `bn256` is a number; conversions are explicit: *_be = most significant octet first (the
// specification's hex strings), *_le = least significant octet first (SMP PDUs, Bluetoe's
// ecdh_public_key_t = X little-endian (32) || Y little-endian (32), ecdh_private_key_t, DHKey).
#ifndef VERIF_REFIMPL_P256_HPP
#define VERIF_REFIMPL_P256_HPP

#include <cstdint>
#include <cstddef>

namespace refimpl {

struct bn256 {
    std::uint32_t w[8];      // w[0] least significant limb
};

inline bn256 bn_zero() { bn256 r; for (int i = 0; i < 8; ++i) r.w[i] = 0; return r; }
inline bn256 bn_small(std::uint32_t v) { bn256 r = bn_zero(); r.w[0] = v; return r; }

inline bn256 bn_from_be(const std::uint8_t b[32]) {
    bn256 r;
    for (int i = 0; i < 8; ++i) {
        const std::uint8_t* p = b + 32 - 4 * (i + 1);
        r.w[i] = (static_cast<std::uint32_t>(p[0]) << 24) | (static_cast<std::uint32_t>(p[1]) << 16)
               | (static_cast<std::uint32_t>(p[2]) << 8) | p[3];
    }
    return r;
}
inline bn256 bn_from_le(const std::uint8_t b[32]) {
    bn256 r;
    for (int i = 0; i < 8; ++i) {
        const std::uint8_t* p = b + 4 * i;
        r.w[i] = (static_cast<std::uint32_t>(p[3]) << 24) | (static_cast<std::uint32_t>(p[2]) << 16)
               | (static_cast<std::uint32_t>(p[1]) << 8) | p[0];
    }
    return r;
}
inline void bn_to_be(const bn256& a, std::uint8_t b[32]) {
    for (int i = 0; i < 8; ++i) {
        std::uint8_t* p = b + 32 - 4 * (i + 1);
        p[0] = static_cast<std::uint8_t>(a.w[i] >> 24); p[1] = static_cast<std::uint8_t>(a.w[i] >> 16);
        p[2] = static_cast<std::uint8_t>(a.w[i] >> 8);  p[3] = static_cast<std::uint8_t>(a.w[i]);
    }
}
inline void bn_to_le(const bn256& a, std::uint8_t b[32]) {
    for (int i = 0; i < 8; ++i) {
        std::uint8_t* p = b + 4 * i;
        p[3] = static_cast<std::uint8_t>(a.w[i] >> 24); p[2] = static_cast<std::uint8_t>(a.w[i] >> 16);
        p[1] = static_cast<std::uint8_t>(a.w[i] >> 8);  p[0] = static_cast<std::uint8_t>(a.w[i]);
    }
}

inline int bn_cmp(const bn256& a, const bn256& b) {
    for (int i = 7; i >= 0; --i) {
        if (a.w[i] < b.w[i]) return -1;
        if (a.w[i] > b.w[i]) return 1;
    }
    return 0;
}
inline bool bn_is_zero(const bn256& a) { std::uint32_t o = 0; for (int i = 0; i < 8; ++i) o |= a.w[i]; return o == 0; }
inline bool bn_bit(const bn256& a, int i) { return (a.w[i >> 5] >> (i & 31)) & 1; }

// r = a + b, returns carry
inline std::uint32_t bn_add(bn256& r, const bn256& a, const bn256& b) {
    std::uint64_t c = 0;
    for (int i = 0; i < 8; ++i) { c += static_cast<std::uint64_t>(a.w[i]) + b.w[i]; r.w[i] = static_cast<std::uint32_t>(c); c >>= 32; }
    return static_cast<std::uint32_t>(c);
}
// r = a - b, returns borrow
inline std::uint32_t bn_sub(bn256& r, const bn256& a, const bn256& b) {
    std::uint64_t borrow = 0;
    for (int i = 0; i < 8; ++i) {
        const std::uint64_t d = static_cast<std::uint64_t>(a.w[i]) - b.w[i] - borrow;   // modulo 2^64
        r.w[i] = static_cast<std::uint32_t>(d);
        borrow = (d >> 32) & 1;
    }
    return static_cast<std::uint32_t>(borrow);
}

namespace p256_detail {

// out of line on purpose: inlining the 256-bit primitives into every formula makes sanitizer builds take tens of seconds
#if defined(__GNUC__)
#define REFIMPL_NOINLINE __attribute__((noinline))
#else
#define REFIMPL_NOINLINE
#endif

    inline bn256 words(std::uint32_t w7, std::uint32_t w6, std::uint32_t w5, std::uint32_t w4,
                       std::uint32_t w3, std::uint32_t w2, std::uint32_t w1, std::uint32_t w0) {
        bn256 r; r.w[7] = w7; r.w[6] = w6; r.w[5] = w5; r.w[4] = w4; r.w[3] = w3; r.w[2] = w2; r.w[1] = w1; r.w[0] = w0;
        return r;
    }

    // arithmetic modulo an odd 256-bit modulus, Montgomery representation (R = 2^256)
    struct field {
        bn256 m;            // modulus
        std::uint32_t n0;   // -m^-1 mod 2^32
        bn256 rr;           // R^2 mod m
        bn256 one;          // R mod m

        explicit field(const bn256& mod) : m(mod) {
            std::uint32_t inv = m.w[0];                      // correct to 3 bits for odd m
            for (int i = 0; i < 5; ++i) inv *= 2u - m.w[0] * inv;   // Newton: doubles the number of correct bits
            n0 = 0u - inv;
            bn256 r = bn_small(1);
            for (int i = 0; i < 512; ++i) {
                r = add(r, r);
                if (i == 255) one = r;
            }
            rr = r;
        }
        REFIMPL_NOINLINE bn256 add(const bn256& a, const bn256& b) const {    // a, b < m
            bn256 r, t;
            const std::uint32_t c = bn_add(r, a, b);
            if (c || bn_cmp(r, m) >= 0) { bn_sub(t, r, m); return t; }
            return r;
        }
        REFIMPL_NOINLINE bn256 sub(const bn256& a, const bn256& b) const {
            bn256 r, t;
            if (bn_sub(r, a, b)) { bn_add(t, r, m); return t; }
            return r;
        }
        // Montgomery product a*b*R^-1 mod m (coarsely integrated operand scanning)
        REFIMPL_NOINLINE bn256 mul(const bn256& a, const bn256& b) const {
            std::uint32_t t[10] = { 0 };
            for (int i = 0; i < 8; ++i) {
                std::uint64_t c = 0;
                for (int j = 0; j < 8; ++j) {
                    c += static_cast<std::uint64_t>(t[j]) + static_cast<std::uint64_t>(a.w[j]) * b.w[i];
                    t[j] = static_cast<std::uint32_t>(c); c >>= 32;
                }
                c += t[8]; t[8] = static_cast<std::uint32_t>(c); t[9] = static_cast<std::uint32_t>(c >> 32);
                const std::uint32_t q = t[0] * n0;
                c = static_cast<std::uint64_t>(t[0]) + static_cast<std::uint64_t>(q) * m.w[0];
                c >>= 32;
                for (int j = 1; j < 8; ++j) {
                    c += static_cast<std::uint64_t>(t[j]) + static_cast<std::uint64_t>(q) * m.w[j];
                    t[j - 1] = static_cast<std::uint32_t>(c); c >>= 32;
                }
                c += t[8]; t[7] = static_cast<std::uint32_t>(c); c >>= 32;
                t[8] = t[9] + static_cast<std::uint32_t>(c);
            }
            bn256 r, s;
            for (int i = 0; i < 8; ++i) r.w[i] = t[i];
            if (t[8] || bn_cmp(r, m) >= 0) { bn_sub(s, r, m); return s; }
            return r;
        }
        bn256 to(const bn256& a) const { return mul(a, rr); }             // a < m  ->  aR
        bn256 from(const bn256& a) const { return mul(a, bn_small(1)); }  // aR -> a
        // a^e, a in Montgomery form
        REFIMPL_NOINLINE bn256 pow(const bn256& a, const bn256& e) const {
            bn256 r = one;
            for (int i = 255; i >= 0; --i) {
                r = mul(r, r);
                if (bn_bit(e, i)) r = mul(r, a);
            }
            return r;
        }
        // a^(m-2): inverse for prime m (Fermat), a in Montgomery form
        bn256 inv(const bn256& a) const {
            bn256 e; bn_sub(e, m, bn_small(2));
            return pow(a, e);
        }
    };

    struct curve {
        bn256 p, b, gx, gy, n;
        field f;
        bn256 a_m, b_m;   // Montgomery form of a = p - 3 and b
        curve()
            : p (words(0xffffffff, 0x00000001, 0x00000000, 0x00000000, 0x00000000, 0xffffffff, 0xffffffff, 0xffffffff))
            , b (words(0x5ac635d8, 0xaa3a93e7, 0xb3ebbd55, 0x769886bc, 0x651d06b0, 0xcc53b0f6, 0x3bce3c3e, 0x27d2604b))
            , gx(words(0x6b17d1f2, 0xe12c4247, 0xf8bce6e5, 0x63a440f2, 0x77037d81, 0x2deb33a0, 0xf4a13945, 0xd898c296))
            , gy(words(0x4fe342e2, 0xfe1a7f9b, 0x8ee7eb4a, 0x7c0f9e16, 0x2bce3357, 0x6b315ece, 0xcbb64068, 0x37bf51f5))
            , n (words(0xffffffff, 0x00000000, 0xffffffff, 0xffffffff, 0xbce6faad, 0xa7179e84, 0xf3b9cac2, 0xfc632551))
            , f(p)
        {
            bn256 a; bn_sub(a, p, bn_small(3));
            a_m = f.to(a);
            b_m = f.to(b);
        }
    };
    inline const curve& P256() { static const curve c; return c; }

    // Jacobian point in Montgomery form; z == 0: point at infinity
    struct jac { bn256 x, y, z; };

    REFIMPL_NOINLINE inline jac jac_double(const jac& p1) {
        const curve& C = P256(); const field& F = C.f;
        if (bn_is_zero(p1.z) || bn_is_zero(p1.y)) { jac r; r.x = F.one; r.y = F.one; r.z = bn_zero(); return r; }
        const bn256 yy = F.mul(p1.y, p1.y);
        bn256 s = F.mul(p1.x, yy); s = F.add(s, s); s = F.add(s, s);               // S = 4 X Y^2
        const bn256 zz = F.mul(p1.z, p1.z);
        const bn256 xx = F.mul(p1.x, p1.x);
        bn256 m = F.add(F.add(xx, xx), xx);                                          // 3 X^2
        m = F.add(m, F.mul(C.a_m, F.mul(zz, zz)));                                   // + a Z^4
        jac r;
        r.x = F.sub(F.mul(m, m), F.add(s, s));                                       // M^2 - 2S
        bn256 y4 = F.mul(yy, yy); y4 = F.add(y4, y4); y4 = F.add(y4, y4); y4 = F.add(y4, y4);   // 8 Y^4
        r.y = F.sub(F.mul(m, F.sub(s, r.x)), y4);
        const bn256 yz = F.mul(p1.y, p1.z);
        r.z = F.add(yz, yz);
        return r;
    }

    REFIMPL_NOINLINE inline jac jac_add(const jac& p1, const jac& p2) {
        const curve& C = P256(); const field& F = C.f;
        if (bn_is_zero(p1.z)) return p2;
        if (bn_is_zero(p2.z)) return p1;
        const bn256 z1z1 = F.mul(p1.z, p1.z), z2z2 = F.mul(p2.z, p2.z);
        const bn256 u1 = F.mul(p1.x, z2z2), u2 = F.mul(p2.x, z1z1);
        const bn256 s1 = F.mul(p1.y, F.mul(z2z2, p2.z)), s2 = F.mul(p2.y, F.mul(z1z1, p1.z));
        if (bn_cmp(u1, u2) == 0) {
            if (bn_cmp(s1, s2) == 0) return jac_double(p1);
            jac r; r.x = F.one; r.y = F.one; r.z = bn_zero(); return r;              // P + (-P)
        }
        const bn256 h = F.sub(u2, u1), rr = F.sub(s2, s1);
        const bn256 hh = F.mul(h, h), hhh = F.mul(hh, h), v = F.mul(u1, hh);
        jac r;
        r.x = F.sub(F.sub(F.mul(rr, rr), hhh), F.add(v, v));
        r.y = F.sub(F.mul(rr, F.sub(v, r.x)), F.mul(s1, hhh));
        r.z = F.mul(h, F.mul(p1.z, p2.z));
        return r;
    }
} // namespace p256_detail

struct p256_point {
    bn256 x, y;
    bool  infinity;
};

inline const bn256& p256_p() { return p256_detail::P256().p; }
inline const bn256& p256_n() { return p256_detail::P256().n; }
inline p256_point p256_generator() { p256_point g; g.x = p256_detail::P256().gx; g.y = p256_detail::P256().gy; g.infinity = false; return g; }

// the reference predicate: 0 <= x, y < p and y^2 = x^3 - 3x + b (mod p)
// (the point at infinity has no affine representation and therefore can not be encoded at all)
inline bool p256_on_curve(const bn256& x, const bn256& y)
{
    const p256_detail::curve& C = p256_detail::P256(); const p256_detail::field& F = C.f;
    if (bn_cmp(x, C.p) >= 0 || bn_cmp(y, C.p) >= 0) return false;
    const bn256 xm = F.to(x), ym = F.to(y);
    const bn256 lhs = F.mul(ym, ym);
    bn256 rhs = F.mul(F.mul(xm, xm), xm);
    rhs = F.add(rhs, F.mul(C.a_m, xm));
    rhs = F.add(rhs, C.b_m);
    return bn_cmp(lhs, rhs) == 0;
}

// y with y^2 = x^3 - 3x + b (mod p) for a given x < p, if there is one (p = 3 mod 4: y = rhs^((p+1)/4));
// of the two roots y and p - y the one with the requested parity is returned.  Lets a test choose the
// abscissa of a point (small x, x close to p, ...).
inline bool p256_lift_x(const bn256& x, bool odd_y, bn256& y)
{
    const p256_detail::curve& C = p256_detail::P256(); const p256_detail::field& F = C.f;
    if (bn_cmp(x, C.p) >= 0) return false;
    const bn256 xm = F.to(x);
    bn256 rhs = F.mul(F.mul(xm, xm), xm);
    rhs = F.add(rhs, F.mul(C.a_m, xm));
    rhs = F.add(rhs, C.b_m);
    bn256 e; bn_add(e, C.p, bn_small(1));          // p + 1 < 2^256
    for (int i = 0; i < 7; ++i) e.w[i] = (e.w[i] >> 2) | (e.w[i + 1] << 30);
    e.w[7] >>= 2;
    const bn256 r = F.pow(rhs, e);
    if (bn_cmp(F.mul(r, r), rhs) != 0) return false;
    y = F.from(r);
    if (((y.w[0] & 1) != 0) != odd_y && !bn_is_zero(y)) { bn256 t; bn_sub(t, C.p, y); y = t; }
    return true;
}

// k * P for any 256-bit k (k is NOT reduced mod n first; the group law takes care of it)
inline p256_point p256_mult(const bn256& k, const p256_point& pt)
{
    using namespace p256_detail;
    const field& F = P256().f;
    jac acc; acc.x = F.one; acc.y = F.one; acc.z = bn_zero();
    if (!pt.infinity) {
        jac base; base.x = F.to(pt.x); base.y = F.to(pt.y); base.z = F.one;
        for (int i = 255; i >= 0; --i) {
            acc = jac_double(acc);
            if (bn_bit(k, i)) acc = jac_add(acc, base);
        }
    }
    p256_point r;
    if (bn_is_zero(acc.z)) { r.x = bn_zero(); r.y = bn_zero(); r.infinity = true; return r; }
    const bn256 zi = F.inv(acc.z), zi2 = F.mul(zi, zi);
    r.x = F.from(F.mul(acc.x, zi2));
    r.y = F.from(F.mul(acc.y, F.mul(zi2, zi)));
    r.infinity = false;
    return r;
}

inline p256_point p256_add(const p256_point& a, const p256_point& b)
{
    using namespace p256_detail;
    const field& F = P256().f;
    jac ja, jb;
    ja.x = a.infinity ? F.one : F.to(a.x); ja.y = a.infinity ? F.one : F.to(a.y); ja.z = a.infinity ? bn_zero() : F.one;
    jb.x = b.infinity ? F.one : F.to(b.x); jb.y = b.infinity ? F.one : F.to(b.y); jb.z = b.infinity ? bn_zero() : F.one;
    const jac s = jac_add(ja, jb);
    p256_point r;
    if (bn_is_zero(s.z)) { r.x = bn_zero(); r.y = bn_zero(); r.infinity = true; return r; }
    const bn256 zi = F.inv(s.z), zi2 = F.mul(zi, zi);
    r.x = F.from(F.mul(s.x, zi2));
    r.y = F.from(F.mul(s.y, F.mul(zi2, zi)));
    r.infinity = false;
    return r;
}

// private scalar valid: 1 <= k <= n - 1
inline bool p256_valid_private(const bn256& k) { return !bn_is_zero(k) && bn_cmp(k, p256_n()) < 0; }

// ------------------------------------------------------------------- byte array API, little-endian (Bluetoe / SMP)
// public key: 64 bytes = X little-endian || Y little-endian
inline bool p256_valid_public_key_le(const std::uint8_t pub[64])
{
    return p256_on_curve(bn_from_le(pub), bn_from_le(pub + 32));
}

// public key from private scalar; false if the scalar is not in [1, n-1]
inline bool p256_public_key_le(const std::uint8_t priv[32], std::uint8_t pub[64])
{
    const bn256 k = bn_from_le(priv);
    if (!p256_valid_private(k)) return false;
    const p256_point q = p256_mult(k, p256_generator());
    bn_to_le(q.x, pub); bn_to_le(q.y, pub + 32);
    return true;
}

// DHKey = x coordinate of priv * peer (Core Vol 3 Part H 2.3.5.6.1: P256(SK, PK)); false when the peer key is
// not on the curve, the scalar is not in [1, n-1] or the product is the point at infinity
inline bool p256_dhkey_le(const std::uint8_t priv[32], const std::uint8_t peer_pub[64], std::uint8_t dhkey[32])
{
    if (!p256_valid_public_key_le(peer_pub)) return false;
    const bn256 k = bn_from_le(priv);
    if (!p256_valid_private(k)) return false;
    p256_point pt; pt.x = bn_from_le(peer_pub); pt.y = bn_from_le(peer_pub + 32); pt.infinity = false;
    const p256_point s = p256_mult(k, pt);
    if (s.infinity) return false;
    bn_to_le(s.x, dhkey);
    return true;
}

// ------------------------------------------------------------------- same, most significant octet first (spec hex strings)
inline bool p256_valid_public_key_be(const std::uint8_t x[32], const std::uint8_t y[32])
{
    return p256_on_curve(bn_from_be(x), bn_from_be(y));
}
inline bool p256_public_key_be(const std::uint8_t priv[32], std::uint8_t x[32], std::uint8_t y[32])
{
    const bn256 k = bn_from_be(priv);
    if (!p256_valid_private(k)) return false;
    const p256_point q = p256_mult(k, p256_generator());
    bn_to_be(q.x, x); bn_to_be(q.y, y);
    return true;
}
inline bool p256_dhkey_be(const std::uint8_t priv[32], const std::uint8_t px[32], const std::uint8_t py[32], std::uint8_t dhkey[32])
{
    if (!p256_valid_public_key_be(px, py)) return false;
    const bn256 k = bn_from_be(priv);
    if (!p256_valid_private(k)) return false;
    p256_point pt; pt.x = bn_from_be(px); pt.y = bn_from_be(py); pt.infinity = false;
    const p256_point s = p256_mult(k, pt);
    if (s.infinity) return false;
    bn_to_be(s.x, dhkey);
    return true;
}

} // namespace refimpl

#endif
