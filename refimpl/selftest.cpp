// Known-answer self test of the reference implementations in /verif/refimpl.
// Build: g++ -std=c++11 -O1 -g -I/verif/refimpl selftest.cpp ; exit code 0 only if every vector passes.
//
// Provenance of the vectors (no network was available when this was written; every vector was
// cross-validated by an implementation that shares no code with refimpl):
//   * FIPS-197 Appendix B and C.1, RFC 4493 section 4 examples 1-4 and its subkeys: re-computed with
//     `openssl enc -aes-128-ecb` / `openssl mac ... CMAC` (OpenSSL 3.5).
//   * Core Vol 3 Part H 2.2.3 (c1), 2.2.4 (s1), Appendix D.2-D.5 (f4, f5, f6, g2): the hex strings are the
//     specification's (they also appear in the comments of /repo/tests/security_manager/test_sm_tests.cpp);
//     each AES-CMAC / AES value re-computed with the openssl command line on the spec's M0..Mn blocks.
//   * Core Vol 2 Part G 7.1.2 P-256 sample data (set 1 = the SMP debug key pair of Vol 3 Part H 2.3.5.6.1,
//     set 2), curve constants: re-computed with python3 big integers (affine textbook formulas) and
//     `openssl ecparam -name prime256v1 -param_enc explicit`.
//   * Core Vol 6 Part C 1 (LL encryption sample data: LTK, SKDm, SKDs, IVm, IVs, SKD, IV, SK): re-computed with
//     openssl; the same values are quoted in /repo/tests/link_layer/ll_encryption_tests.cpp.
//   * "xcheck" vectors: random inputs, results produced by openssl / python3, not by refimpl.
#include "aes128.hpp"
#include "cmac.hpp"
#include "smp_crypto.hpp"
#include "p256.hpp"
#include "ll_crypto.hpp"
#include "csa1.hpp"

#include <cstdio>
#include <cstring>
#include <string>
#include <vector>

using namespace refimpl;

static int failures = 0, checks = 0;

static std::vector<std::uint8_t> unhex(const std::string& s)
{
    std::vector<std::uint8_t> r;
    int hi = -1;
    for (std::size_t i = 0; i < s.size(); ++i) {
        const char c = s[i];
        int v;
        if (c >= '0' && c <= '9') v = c - '0';
        else if (c >= 'a' && c <= 'f') v = c - 'a' + 10;
        else if (c >= 'A' && c <= 'F') v = c - 'A' + 10;
        else continue;                       // blanks and underscores are separators
        if (hi < 0) hi = v; else { r.push_back(static_cast<std::uint8_t>(hi * 16 + v)); hi = -1; }
    }
    return r;
}
static std::string tohex(const std::uint8_t* p, std::size_t n)
{
    static const char* d = "0123456789abcdef";
    std::string r;
    for (std::size_t i = 0; i < n; ++i) { r.push_back(d[p[i] >> 4]); r.push_back(d[p[i] & 15]); }
    return r;
}
static u128 be128(const std::string& s) { const std::vector<std::uint8_t> v = unhex(s); u128 r; r.fill(0); for (std::size_t i = 0; i < 16 && i < v.size(); ++i) r[i] = v[i]; return r; }
// specification notation (most significant octet first) -> little-endian array
static std::vector<std::uint8_t> le(const std::string& s) { std::vector<std::uint8_t> v = unhex(s); return std::vector<std::uint8_t>(v.rbegin(), v.rend()); }
static u128 le128(const std::string& s) { return reversed(be128(s)); }

static void expect(const char* what, const std::string& got, const std::string& want)
{
    ++checks;
    const std::vector<std::uint8_t> w = unhex(want);
    const std::string wn = tohex(w.data(), w.size());
    if (got != wn) { ++failures; std::printf("FAIL %s\n  got  %s\n  want %s\n", what, got.c_str(), wn.c_str()); }
}
static void expect_true(const char* what, bool v) { ++checks; if (!v) { ++failures; std::printf("FAIL %s\n", what); } }
static std::string hx(const u128& a) { return tohex(a.data(), 16); }

static void test_aes()
{
    expect("FIPS-197 B", hx(aes128_be(be128("2b7e151628aed2a6abf7158809cf4f3c"), be128("3243f6a8885a308d313198a2e0370734"))), "3925841d02dc09fbdc118597196a0b32");
    expect("FIPS-197 C.1", hx(aes128_be(be128("000102030405060708090a0b0c0d0e0f"), be128("00112233445566778899aabbccddeeff"))), "69c4e0d86a7b0430d8cdb78070b4c55a");
    expect("FIPS-197 5.1.1 S-box {53} = {ed}", tohex(&aes_detail::sbox()[0x53], 1), "ed");
    expect("S-box {00} = {63}", tohex(&aes_detail::sbox()[0x00], 1), "63");
    static const char* x[][3] = {
        { "13ce74fbab9716db03a734fabaa907e5", "c138a6ed7f3ef0c918cbdbf21b261eb9", "8fe1e1d7e7045f72e2beb89febb759f5" },
        { "018f39616696cf40614fc78c9855e24b", "04b40a3b60525fa6b1469e856a897bb1", "69842c1d554d32018547e93ad55d2bd0" },
        { "aad0ff4189bf2a93076c65369f711f15", "8f5e4f57bf6001f9ded3c8f6bd43944e", "b3145afe75d7bf2deaf4cef2485982ea" },
    };
    for (unsigned i = 0; i < 3; ++i) expect("AES xcheck (openssl)", hx(aes128_be(be128(x[i][0]), be128(x[i][1]))), x[i][2]);
    // e() on little-endian arrays: Bluetoe's aes_test (FIPS C.1 reversed)
    expect("e() little-endian", hx(aes128_le(le128("000102030405060708090a0b0c0d0e0f"), le128("00112233445566778899aabbccddeeff"))),
           tohex(le128("69c4e0d86a7b0430d8cdb78070b4c55a").data(), 16));
}

static void test_cmac()
{
    const u128 k = be128("2b7e1516 28aed2a6 abf71588 09cf4f3c");
    std::uint8_t k1[16], k2[16];
    cmac_subkeys(k.data(), k1, k2);
    expect("RFC 4493 K1", tohex(k1, 16), "fbeed618 35713366 7c85e08f 7236a8de");
    expect("RFC 4493 K2", tohex(k2, 16), "f7ddac30 6ae266cc f90bc11e e46d513b");
    const std::string m64 = "6bc1bee2 2e409f96 e93d7e11 7393172a ae2d8a57 1e03ac9c 9eb76fac 45af8e51"
                            "30c81c46 a35ce411 e5fbc119 1a0a52ef f69f2445 df4f9b17 ad2b417b e66c3710";
    const std::vector<std::uint8_t> m = unhex(m64);
    struct { std::size_t len; const char* mac; } ex[] = {
        { 0,  "bb1d6929 e9593728 7fa37d12 9b756746" },
        { 16, "070a16b4 6b4d4144 f79bdd9d d04a287c" },
        { 40, "dfa66747 de9ae630 30ca3261 1497c827" },
        { 64, "51f0bebf 7e3b9d92 fc497417 79363cfe" },
    };
    for (unsigned i = 0; i < 4; ++i)
        expect("RFC 4493 example", hx(aes_cmac(k, std::vector<std::uint8_t>(m.begin(), m.begin() + ex[i].len))), ex[i].mac);
    static const char* x[][3] = {
        { "90af7b6b618c2357f6624a16d3da008d", "12", "de7d6486b668c5590d402fe2deff6cde" },
        { "65cf7d0a0043ff69f90d184ca4fd8362", "9f938255f454fbb82a4315374c26e7", "ed244f7a8ff9afc2ec1884b0133a5465" },
        { "fa573c00b6e09bc4bd5dc21966010f73", "32ff8a1f41e9cfe8d71bab550a65222e1f", "d2e30fe3315e2d90894257e8f2a8ee00" },
        { "cbcfbbf091430d193145aaf3a35c49ad", "8b666ad0e37c560f232fa817c20bd26886b8e17ae77e73e0f6f25991bb98e97ded", "58ee0fcc220524b0e3abf221e3e348c1" },
    };
    for (unsigned i = 0; i < 4; ++i) expect("CMAC xcheck (openssl)", hx(aes_cmac(be128(x[i][0]), unhex(x[i][1]))), x[i][2]);
}

static void test_smp()
{
    // ---- c1, Vol 3 Part H 2.2.3
    {
        const u128 k = le128("00000000000000000000000000000000"), r = le128("5783D52156AD6F0E6388274EC6702EE0");
        const std::vector<std::uint8_t> preq = le("07071000000101"), pres = le("05000800000302");
        const std::vector<std::uint8_t> ia = le("A1A2A3A4A5A6"), ra = le("B1B2B3B4B5B6");
        const u128 p1 = c1_p1(preq.data(), pres.data(), true, false);      // iat' = 0x01, rat' = 0x00
        const u128 p2 = c1_p2(ia.data(), ra.data());
        expect("c1 p1", hx(reversed(p1)), "05000800000302070710000001010001");
        expect("c1 p2", hx(reversed(p2)), "00000000A1A2A3A4A5A6B1B2B3B4B5B6");
        expect("c1", hx(reversed(c1(k, r, p1, p2))), "1e1e3fef878988ead2a74dc5bef13b86");
        expect("c1 (8 argument form)", hx(reversed(c1(k, r, preq.data(), pres.data(), make_address(true, ia.data()), make_address(false, ra.data())))),
               "1e1e3fef878988ead2a74dc5bef13b86");
        // the little-endian arrays as Bluetoe's tests spell them
        static const std::uint8_t bluetoe_p1[16] = { 0x01, 0x00, 0x01, 0x01, 0x00, 0x00, 0x10, 0x07, 0x07, 0x02, 0x03, 0x00, 0x00, 0x08, 0x00, 0x05 };
        expect_true("c1 p1 little-endian layout", std::memcmp(bluetoe_p1, p1.data(), 16) == 0);
    }
    // ---- s1, 2.2.4
    {
        const u128 k = le128("00000000000000000000000000000000");
        const u128 r1 = le128("000F0E0D0C0B0A091122334455667788"), r2 = le128("010203040506070899AABBCCDDEEFF00");
        expect("s1", hx(reversed(s1(k, r1, r2))), "9a1fe1f0e8b0f49b5b4216ae796da062");
    }
    // ---- Appendix D
    const std::vector<std::uint8_t> U = le("20b003d2 f297be2c 5e2c83a7 e9f9a5b9 eff49111 acf4fddb cc030148 0e359de6");
    const std::vector<std::uint8_t> V = le("55188b3d 32f6bb9a 900afcfb eed4e72a 59cb9ac2 f19d7cfb 6b4fdd49 f47fc5fd");
    const u128 X = le128("d5cb8454 d177733e ffffb2ec 712baeab"), Y = le128("a6e8e7cc 25a75f6e 216583f7 ff3dc4cf");
    expect("f4 (D.2)", hx(reversed(f4(U.data(), V.data(), X, 0x00))), "f2c916f1 07a9bd1c f1eda1be a974872d");
    expect_true("g2 (D.5)", g2(U.data(), V.data(), X, Y) == 0x2f9ed5bau);

    const std::vector<std::uint8_t> W = le("ec0234a3 57c8ad05 341010a6 0a397d9b 99796b13 b4f866f1 868d34f3 73bfa698");
    const std::vector<std::uint8_t> a1 = le("56123737bfce"), a2 = le("a713702dcfc1");
    const address A1 = make_address(false, a1.data()), A2 = make_address(false, a2.data());
    const std::pair<u128, u128> mk_ltk = f5(W.data(), X, Y, A1, A2);
    expect("f5 MacKey (D.3)", hx(reversed(mk_ltk.first)), "2965f176 a1084a02 fd3f6a20 ce636e20");
    expect("f5 LTK (D.3)", hx(reversed(mk_ltk.second)), "69867911 69d7cd23 980522b5 94750a38");

    const u128 R = le128("12a3343b b453bb54 08da42d2 0c2d0fc8");
    const std::vector<std::uint8_t> io = le("010102");
    expect("f6 (D.4)", hx(reversed(f6(mk_ltk.first, X, Y, R, io.data(), A1, A2))), "e3c47398 9cd0e8c5 d26c0b09 da958f61");
    expect_true("f6 iocap little-endian layout {io, oob, authreq}", io[0] == 0x02 && io[1] == 0x01 && io[2] == 0x01);

    // random address type enters A1/A2 as most significant octet 0x01: changes the result
    expect_true("f6 depends on the address type", f6(mk_ltk.first, X, Y, R, io.data(), make_address(true, a1.data()), A2) != f6(mk_ltk.first, X, Y, R, io.data(), A1, A2));
}

static bn256 bn(const std::string& s) { const std::vector<std::uint8_t> v = unhex(s); return bn_from_be(v.data()); }
static std::string hx(const bn256& a) { std::uint8_t b[32]; bn_to_be(a, b); return tohex(b, 32); }

static void test_p256()
{
    const p256_point G = p256_generator();
    expect_true("G on curve", p256_on_curve(G.x, G.y));
    expect_true("n*G = infinity", p256_mult(p256_n(), G).infinity);
    {
        bn256 nm1; bn_sub(nm1, p256_n(), bn_small(1));
        const p256_point m = p256_mult(nm1, G);
        bn256 negy; bn_sub(negy, p256_p(), G.y);
        expect_true("(n-1)*G = -G", !m.infinity && bn_cmp(m.x, G.x) == 0 && bn_cmp(m.y, negy) == 0);
        expect_true("-G on curve", p256_on_curve(G.x, negy));
        const p256_point two = p256_mult(bn_small(2), G), three = p256_mult(bn_small(3), G);
        const p256_point s = p256_add(two, G);
        expect_true("2G + G = 3G", bn_cmp(s.x, three.x) == 0 && bn_cmp(s.y, three.y) == 0);
        expect_true("G + (-G) = infinity", p256_add(G, m).infinity);
        expect("2G.x (python3)", hx(two.x), "7cf27b188d034f7e8a52380304b51ac3c08969e277f21b35a60b48fc47669978");
    }
    // Vol 2 Part G 7.1.2.1 (= SMP debug keys) and 7.1.2.2
    static const char* sets[2][7] = {
        { "3f49f6d4 a3c55f38 74c9b3e3 d2103f50 4aff607b eb40b799 5899b8a6 cd3c1abd",
          "55188b3d 32f6bb9a 900afcfb eed4e72a 59cb9ac2 f19d7cfb 6b4fdd49 f47fc5fd",
          "20b003d2 f297be2c 5e2c83a7 e9f9a5b9 eff49111 acf4fddb cc030148 0e359de6",
          "dc809c49 652aeb6d 63329abf 5a52155c 766345c2 8fed3024 741c8ed0 1589d28b",
          "1ea1f0f0 1faf1d96 09592284 f19e4c00 47b58afd 8615a69f 559077b2 2faaa190",
          "4c55f33e 429dad37 7356703a 9ab85160 472d1130 e28e3676 5f89aff9 15b1214a",
          "ec0234a3 57c8ad05 341010a6 0a397d9b 99796b13 b4f866f1 868d34f3 73bfa698" },
        { "06a51669 3c9aa31a 6084545d 0c5db641 b48572b9 7203ddff b7ac73f7 d0457663",
          "529aa067 0d72cd64 97502ed4 73502b03 7e8803b5 c60829a5 a3caa219 505530ba",
          "2c31a47b 5779809e f44cb5ea af5c3e43 d5f8faad 4a8794cb 987e9b03 745c78dd",
          "91951218 3898dfbe cd52e240 8e43871f d0211091 17bd3ed4 eaf84377 43715d4f",
          "f465e43f f23d3f1b 9dc7dfc0 4da87581 84dbc966 204796ec cf0d6cf5 e16500cc",
          "0201d048 bcbbd899 eeefc424 164e33c2 01c2b010 ca6b4d43 a8a155ca d8ecb279",
          "ab85843a 2f6d883f 62e5684b 38e30733 5fe6e194 5ecd1960 4105c6f2 3221eb69" },
    };
    for (int s = 0; s < 2; ++s) {
        const std::vector<std::uint8_t> pa = unhex(sets[s][0]), pb = unhex(sets[s][1]);
        std::uint8_t x[32], y[32], dh[32];
        expect_true("public key A computable", p256_public_key_be(pa.data(), x, y));
        expect("Public A x", tohex(x, 32), sets[s][2]); expect("Public A y", tohex(y, 32), sets[s][3]);
        expect_true("DHKey A*PB computable", p256_dhkey_be(pa.data(), unhex(sets[s][4]).data(), unhex(sets[s][5]).data(), dh));
        expect("DHKey (A, PB)", tohex(dh, 32), sets[s][6]);
        expect_true("public key B computable", p256_public_key_be(pb.data(), x, y));
        expect("Public B x", tohex(x, 32), sets[s][4]); expect("Public B y", tohex(y, 32), sets[s][5]);
        expect_true("DHKey B*PA computable", p256_dhkey_be(pb.data(), unhex(sets[s][2]).data(), unhex(sets[s][3]).data(), dh));
        expect("DHKey (B, PA)", tohex(dh, 32), sets[s][6]);

        // little-endian API (Bluetoe layout): everything reversed per 32 byte value
        const std::vector<std::uint8_t> pal = le(sets[s][0]);
        std::vector<std::uint8_t> pbl = le(sets[s][4]), pby = le(sets[s][5]);
        pbl.insert(pbl.end(), pby.begin(), pby.end());
        std::uint8_t pub[64], dhl[32];
        expect_true("le public key", p256_public_key_le(pal.data(), pub));
        expect("le Public A x", tohex(pub, 32), tohex(le(sets[s][2]).data(), 32));
        expect("le Public A y", tohex(pub + 32, 32), tohex(le(sets[s][3]).data(), 32));
        expect_true("le valid key", p256_valid_public_key_le(pbl.data()));
        expect_true("le dhkey", p256_dhkey_le(pal.data(), pbl.data(), dhl));
        expect("le DHKey", tohex(dhl, 32), tohex(le(sets[s][6]).data(), 32));
        pbl[40] ^= 0x10;
        expect_true("le key with a flipped bit is invalid", !p256_valid_public_key_le(pbl.data()));
        expect_true("dhkey refuses an invalid peer key", !p256_dhkey_le(pal.data(), pbl.data(), dhl));
    }
    // random scalar multiplications, results from python3 (affine textbook arithmetic with pow(x, -1, p))
    static const char* x[][5] = {
        { "53ba509554a703a7b87b2e103025bad0594e4876610cb1e82851d5edb7b43884", "4907c013cc78e90de2692426ae921a0c569193092391d78fdbebec44a9ed8f48", "e2d1c427ada60536c9b5d3338a105a0c2239bd44f7bff0a160545cc8afd60864", "2f2c6e9ab1db6d8d5da8c11ce4913fbf9d2bfd06e036b135f9ec9e832602c89d", "4ad642c85a637fac57dcdb05c1f0d255b08693ec4dc1800a13e2aa9e013cba3b" },
        { "a6ed99f3d860a2608c6e2602072176b2f3b76b93de460c3f32d7fa7a90b3c9be", "af247275b206153cef584299573cb3033bbd44dc52cb0af273d2c352cc8ddb1b", "643605d300cc33c69dad0fb152b92c03006166df8a10ef7c67a53fdc8745ca85", "6a31d85341e81839a3d9a988028b5ce77fef7725e4efce7ddfed2f19fb5d65b3", "0ea1d1ebccc59cd03ea162326d7d944b6b623a33c62c9a2be692cb48555b89ba" },
        { "a7356d0a8266db28eda6aba193f3723ab753bbe5894d7c3676f676cef881273a", "43d0e7d8107d4fedc9e6299d7a00ec7dacad4915d8d0169f6fde41fd1262974d", "5c5f3d31ec504739be1d50d1fe108c79007210b1888b31ad22d2c015d9a5207a", "a627e6177eab022d6a1486c01bf1ce19fb439e165216628394164c2bd0710b46", "9baf846623eb5dc0714d6575bce240cabe4f142ebc764c9962f593accf1ac88e" },
        { "962ec79391d1b2158f3f2d0cbe2f07b36c9832489561150ae8f7d0713024de75", "dc0b41c46a1c05e076288e0fc1aba3ac2f696132f094ce5684a1485f0b746364", "220685dcbf988bba5f04cc64a3e97174fb545bef74a8f94243d0ae6dafa7b56d", "f7ebe46ac6fee492d9d81de3767c8c692d3b12f8f7f04801e8b33458dda569c8", "46c3879952ebea215e87e495d8d9357468c084c4e6e50578b0d565591c64872b" },
        { "8ba6f91b61f9147db154af9b656f518753a49f5a87c8cc952358d111ac20f295", "eafc352749d9cf5e70a33b6e2e843e4ddf244e0afa43fc70c401f64fe1fb0d75", "d134e79bc7c18b014a5b1fd2940d47d8a954eb2a6c0904deff681b69ae1d69c4", "b33c83f844207a6b73bb6c617b86be4c21171a1b5d9f3639bce2d5050f747f32", "45d6e309daf529a471a5efc9bc6b13cc86be52b69832ba6a6d2d4e9fb29b26c1" },
        { "ffffffff00000000ffffffffffffffffbce6faada7179e84f3b9cac2fc632550", "59e3efb0213af879cfecad13af27211cddd58811559e9e9d0fc69c07658e9ba1", "77d348fdbda44a94a5d45b9678add8ba72360fb727cb88fe8769f9be386fa234", "59e3efb0213af879cfecad13af27211cddd58811559e9e9d0fc69c07658e9ba1", "882cb701425bb56c5a2ba469875227458dc9f049d834770178960641c7905dcb" },
    };
    for (unsigned i = 0; i < 6; ++i) {
        p256_point pt; pt.x = bn(x[i][1]); pt.y = bn(x[i][2]); pt.infinity = false;
        expect_true("xcheck input point on curve", p256_on_curve(pt.x, pt.y));
        const p256_point r = p256_mult(bn(x[i][0]), pt);
        expect("k*P x (python3)", hx(r.x), x[i][3]);
        expect("k*P y (python3)", hx(r.y), x[i][4]);
    }
    // range part of the predicate: coordinates >= p are refused even if congruent to a valid coordinate
    {
        bn256 ones; for (int i = 0; i < 8; ++i) ones.w[i] = 0xffffffffu;
        expect_true("x = 2^256-1 refused", !p256_on_curve(ones, G.y));
        expect_true("y = 2^256-1 refused", !p256_on_curve(G.x, ones));
        expect_true("x = p refused", !p256_on_curve(p256_p(), G.y));
        expect_true("(0,0) refused", !p256_on_curve(bn_zero(), bn_zero()));
        // lift_x: even root for x = 5 from python3 (pow(rhs, (p+1)//4, p)); x = 1..4 have no point
        bn256 y;
        expect_true("lift_x(5)", p256_lift_x(bn_small(5), false, y));
        expect("lift_x(5) even y (python3)", hx(y), "459243b9aa581806fe913bce99817ade11ca503c64d9a3c533415c083248fbcc");
        expect_true("lift_x(5) on curve", p256_on_curve(bn_small(5), y));
        expect_true("lift_x(1) has no point", !p256_lift_x(bn_small(1), false, y));
        expect_true("lift_x(0)", p256_lift_x(bn_zero(), false, y));
        expect("lift_x(0) even y (python3)", hx(y), "66485c780e2f83d72433bd5d84a06bb6541c2af31dae871728bf856a174f93f4");
        expect_true("lift_x(Gx, odd) = Gy", p256_lift_x(G.x, true, y) && bn_cmp(y, G.y) == 0);
        // x = 5 + p fits in 256 bits and is congruent to a valid abscissa: must be refused (range clause)
        bn256 xp; const std::uint32_t carry = bn_add(xp, bn_small(5), p256_p());
        p256_lift_x(bn_small(5), false, y);
        expect_true("x + p refused", carry == 0 && !p256_on_curve(xp, y));
        expect_true("private 0 invalid", !p256_valid_private(bn_zero()));
        expect_true("private n invalid", !p256_valid_private(p256_n()));
        expect_true("private 1 valid", p256_valid_private(bn_small(1)));
    }
}

static void test_ll()
{
    // Vol 6 Part C 1: LTK = 0x4C68384139F574D836BCF34E9DFB01BF, SKDm = 0xACBDCEDFE0F10213, SKDs = 0x0213243546576879,
    // IVm = 0xBADCAB24, IVs = 0xDEAFBABE  =>  SKD = 0x0213243546576879ACBDCEDFE0F10213, IV = 0xDEAFBABEBADCAB24,
    // SK = 0x99AD1B5226A37E3E058E3B8E27C2C666.  LL_ENC_REQ carries SKDm as 13 02 F1 E0 DF CE BD AC, IVm as 24 AB DC BA.
    const u128 ltk = le128("4C68384139F574D836BCF34E9DFB01BF");
    const std::vector<std::uint8_t> skdm = le("ACBDCEDFE0F10213"), skds = le("0213243546576879"), ivm = le("BADCAB24"), ivs = le("DEAFBABE");
    expect_true("SKDm wire order", skdm[0] == 0x13 && skdm[7] == 0xAC);
    expect("SKD", hx(reversed(ll_skd(skdm.data(), skds.data()))), "0213243546576879ACBDCEDFE0F10213");
    const u64bytes iv = ll_iv(ivm.data(), ivs.data());
    expect("IV (octet 0 first)", tohex(iv.data(), 8), "24ABDCBABEBAAFDE");
    expect("SK", hx(reversed(ll_session_key(ltk, skdm.data(), skds.data()))), "99AD1B5226A37E3E058E3B8E27C2C666");
    expect("SK msb first", hx(ll_session_key_msb_first(ltk, skdm.data(), skds.data())), "99AD1B5226A37E3E058E3B8E27C2C666");
    expect("SK (integer form)", hx(reversed(ll_session_key(ltk, 0xACBDCEDFE0F10213ull, 0x0213243546576879ull))), "99AD1B5226A37E3E058E3B8E27C2C666");
    const u64bytes iv2 = ll_iv(0xBADCAB24u, 0xDEAFBABEu);
    expect("IV (integer form)", tohex(iv2.data(), 8), "24ABDCBABEBAAFDE");
}

static void test_csa1()
{
    const std::uint64_t all = (static_cast<std::uint64_t>(1) << 37) - 1;
    // all channels used: the data channel is the unmapped channel, hop*(n+1) mod 37
    bool ok = true;
    for (unsigned hop = 5; hop <= 16; ++hop) {
        unsigned last = 0;
        for (unsigned ev = 0; ev < 200; ++ev) {
            last = csa1_next_unmapped(last, hop);
            ok = ok && csa1_unmapped(hop, ev) == last && csa1(all, hop, ev) == static_cast<int>(last);
        }
    }
    expect_true("csa1 full map / closed form equals the recurrence", ok);
    // hand-worked: used channels 9,10,21,22,23,33,34,35,36 (ChM = 00 06 E0 00 1E), hop 7
    static const std::uint8_t chm[5] = { 0x00, 0x06, 0xE0, 0x00, 0x1E };
    const std::uint64_t map = csa1_map_from_bytes(chm);
    expect_true("map decoding", map == ((1ull << 9) | (1ull << 10) | (1ull << 21) | (1ull << 22) | (1ull << 23) | (1ull << 33) | (1ull << 34) | (1ull << 35) | (1ull << 36)));
    expect_true("event 0: unmapped 7 -> index 7 -> 35", csa1(map, 7, 0) == 35);
    expect_true("event 1: unmapped 14 -> index 5 -> 33", csa1(map, 7, 1) == 33);
    expect_true("event 2: unmapped 21 used", csa1(map, 7, 2) == 21);
    expect_true("event 5: unmapped 5 -> index 5 -> 33", csa1(map, 7, 5) == 33);
    expect_true("event 4: unmapped 35 used", csa1(map, 7, 4) == 35);
    expect_true("reserved bits ignored", csa1(map | (7ull << 37), 7, 0) == 35);
    expect_true("event index beyond 16 bit", csa1_unmapped(7, 65536) == (7u * 65537u) % 37u);
    expect_true("empty map", csa1(0, 7, 0) == -1);
}

int main()
{
    test_aes();
    test_cmac();
    test_smp();
    test_p256();
    test_ll();
    test_csa1();
    std::printf("refimpl selftest: %d checks, %d failures: %s\n", checks, failures, failures ? "FAILED" : "ok");
    return failures ? 1 : 0;
}
