// Reference LE link layer encryption start values, written from Core Vol 6 Part B 5.1.3.1 (Encryption Start
// procedure) and checked on the sample data of Vol 6 Part C 1:
//   SKD = SKDm || SKDs   "The least significant octet of SKDm becomes the least significant octet of SKD,
//                         the most significant octet of SKDs becomes the most significant octet of SKD"
//   IV  = IVm || IVs     (same rule: IVm is the least significant half)
//   SK  = e(LTK, SKD)    e = security function e of Vol 3 Part H 2.2.1 (AES-128, key = LTK, plaintext = SKD)
//
// CONVENTION: byte arrays are little-endian (index 0 = least significant octet) = the order in which
// SKDm/IVm/SKDs/IVs travel in LL_ENC_REQ / LL_ENC_RSP and in which the LTK travels in SMP/HCI.  The integer
// overloads take the little-endian reading of the PDU fields (what bluetoe::details::read_64bit returns).
// `ll_session_key_msb_first` is the same key most significant octet first (FIPS-197 order), which is the
// order an AES/CCM engine such as the nRF52 CCM key field takes.  The CCM nonce uses IV octet 0 first
// (Vol 6 Part E 2.1), i.e. exactly the little-endian array returned by ll_iv.
#ifndef VERIF_REFIMPL_LL_CRYPTO_HPP
#define VERIF_REFIMPL_LL_CRYPTO_HPP

#include "aes128.hpp"

namespace refimpl {

typedef std::array<std::uint8_t, 8> u64bytes;

inline u128 ll_skd(const std::uint8_t skdm_le[8], const std::uint8_t skds_le[8])
{
    u128 skd;
    for (int i = 0; i < 8; ++i) { skd[i] = skdm_le[i]; skd[8 + i] = skds_le[i]; }
    return skd;
}

inline u64bytes ll_iv(const std::uint8_t ivm_le[4], const std::uint8_t ivs_le[4])
{
    u64bytes iv;
    for (int i = 0; i < 4; ++i) { iv[i] = ivm_le[i]; iv[4 + i] = ivs_le[i]; }
    return iv;
}

// SK little-endian
inline u128 ll_session_key(const u128& ltk_le, const std::uint8_t skdm_le[8], const std::uint8_t skds_le[8])
{
    return aes128_le(ltk_le, ll_skd(skdm_le, skds_le));
}

inline u128 ll_session_key_msb_first(const u128& ltk_le, const std::uint8_t skdm_le[8], const std::uint8_t skds_le[8])
{
    return reversed(ll_session_key(ltk_le, skdm_le, skds_le));
}

// integer flavour: skdm/skds/ivm/ivs = little-endian reading of the PDU fields
inline u128 ll_session_key(const u128& ltk_le, std::uint64_t skdm, std::uint64_t skds)
{
    std::uint8_t m[8], s[8];
    for (int i = 0; i < 8; ++i) { m[i] = static_cast<std::uint8_t>(skdm >> (8 * i)); s[i] = static_cast<std::uint8_t>(skds >> (8 * i)); }
    return ll_session_key(ltk_le, m, s);
}

inline u64bytes ll_iv(std::uint32_t ivm, std::uint32_t ivs)
{
    std::uint8_t m[4], s[4];
    for (int i = 0; i < 4; ++i) { m[i] = static_cast<std::uint8_t>(ivm >> (8 * i)); s[i] = static_cast<std::uint8_t>(ivs >> (8 * i)); }
    return ll_iv(m, s);
}

} // namespace refimpl

#endif
