// Reference SMP security tool box: c1, s1 (LE legacy pairing), f4, f5, f6, g2 (LE Secure Connections), ah.
// Written from Core Vol 3 Part H 2.2.1 - 2.2.9: each function builds the message exactly as the
// specification writes it, most significant octet first ("A || B": A is the most significant part), and
// runs the RFC/FIPS-order AES-128 / AES-CMAC of aes128.hpp / cmac.hpp over it.
//
// EXPOSED CONVENTION: every array argument and result is LITTLE-ENDIAN: index 0 is the LEAST significant
// octet of the specification's value.  This is the order in which the values travel in SMP PDUs and the
// order Bluetoe's security tool box API uses (bluetoe::details::uint128_t, ecdh_public_key_t halves,
// io_capabilities_t, device_address::begin()..end()).  Example: the specification's
// "r is 0x5783D52156AD6F0E6388274EC6702EE0" is the array { 0xE0, 0x2E, 0x70, ..., 0x83, 0x57 }.
//   * 256-bit coordinates U, V, DHKey W: 32 bytes, little-endian.
//   * address: 6 bytes little-endian (as on air) + random flag; A1/A2 of f5/f6 are built as
//     (type octet: 0x00 public, 0x01 random) || 48-bit address, type being the most significant octet.
//   * io_cap for f6: 3 bytes little-endian = { IO capability, OOB data flag, AuthReq } (AuthReq is the
//     specification's most significant octet).
//   * g2 returns the full 32-bit value (CMAC mod 2^32); the displayed number is g2 % 1000000.
#ifndef VERIF_REFIMPL_SMP_CRYPTO_HPP
#define VERIF_REFIMPL_SMP_CRYPTO_HPP

#include "aes128.hpp"
#include "cmac.hpp"

#include <utility>
#include <vector>

namespace refimpl {

struct address {
    bool         random;
    std::uint8_t a[6];     // little-endian: a[0] is the first octet on air / least significant
};

inline address make_address(bool random, const std::uint8_t* le6)
{
    address r; r.random = random;
    for (int i = 0; i < 6; ++i) r.a[i] = le6[i];
    return r;
}

namespace smp_detail {
    // append `n` bytes of a little-endian array most-significant-octet first
    inline void put_msb_first(std::vector<std::uint8_t>& m, const std::uint8_t* le, std::size_t n) {
        for (std::size_t i = 0; i < n; ++i) m.push_back(le[n - 1 - i]);
    }
    inline void put_address56(std::vector<std::uint8_t>& m, const address& a) {
        m.push_back(a.random ? 0x01 : 0x00);
        put_msb_first(m, a.a, 6);
    }
    inline u128 cmac_le_key(const u128& key_le, const std::vector<std::uint8_t>& msg_be) {
        return reversed(aes_cmac(reversed(key_le), msg_be));      // result little-endian
    }
    inline u128 xor128(const u128& a, const u128& b) {
        u128 r;
        for (int i = 0; i < 16; ++i) r[i] = static_cast<std::uint8_t>(a[i] ^ b[i]);
        return r;
    }
}

// ---------------------------------------------------------------------------------- LE legacy pairing
// 2.2.3: p1 = pres || preq || rat' || iat'   (pres most significant; iat' least significant octet)
// preq / pres: the 7 octets of the Pairing Request / Response PDU in transmission order (preq[0] = code).
inline u128 c1_p1(const std::uint8_t preq[7], const std::uint8_t pres[7], bool initiator_addr_random, bool responder_addr_random)
{
    u128 p1;
    p1[0] = initiator_addr_random ? 1 : 0;
    p1[1] = responder_addr_random ? 1 : 0;
    for (int i = 0; i < 7; ++i) { p1[2 + i] = preq[i]; p1[9 + i] = pres[i]; }
    return p1;
}

// 2.2.3: p2 = padding(32 bit 0) || ia || ra  (ra least significant)
inline u128 c1_p2(const std::uint8_t ia_le[6], const std::uint8_t ra_le[6])
{
    u128 p2;
    for (int i = 0; i < 6; ++i) { p2[i] = ra_le[i]; p2[6 + i] = ia_le[i]; }
    p2[12] = p2[13] = p2[14] = p2[15] = 0;
    return p2;
}

// c1 = e(k, e(k, r XOR p1) XOR p2), with p1 / p2 already assembled (this is the shape of Bluetoe's API)
inline u128 c1(const u128& k, const u128& r, const u128& p1, const u128& p2)
{
    using smp_detail::xor128;
    return aes128_le(k, xor128(aes128_le(k, xor128(r, p1)), p2));
}

// c1 (k, r, preq, pres, iat, rat, ia, ra)
inline u128 c1(const u128& k, const u128& r, const std::uint8_t preq[7], const std::uint8_t pres[7],
               const address& ia, const address& ra)
{
    return c1(k, r, c1_p1(preq, pres, ia.random, ra.random), c1_p2(ia.a, ra.a));
}

// 2.2.4: s1(k, r1, r2) = e(k, r') with r' = r1' || r2', r1' / r2' the least significant 64 bits of r1 / r2,
// r1' being the most significant half.  (STK = s1(TK, Srand, Mrand): r1 = Srand, r2 = Mrand.)
inline u128 s1(const u128& k, const u128& r1, const u128& r2)
{
    u128 r;
    for (int i = 0; i < 8; ++i) { r[i] = r2[i]; r[8 + i] = r1[i]; }
    return aes128_le(k, r);
}

// 2.2.2: ah(k, r) = e(k, r') mod 2^24, r' = padding || r  (r: 24 bit, little-endian 3 bytes in and out)
inline std::array<std::uint8_t, 3> ah(const u128& k, const std::uint8_t r_le[3])
{
    u128 rr; rr.fill(0);
    rr[0] = r_le[0]; rr[1] = r_le[1]; rr[2] = r_le[2];
    const u128 e = aes128_le(k, rr);
    std::array<std::uint8_t, 3> res = {{ e[0], e[1], e[2] }};
    return res;
}

// ---------------------------------------------------------------------------------- LE Secure Connections
// 2.2.6: f4(U, V, X, Z) = AES-CMAC_X (U || V || Z); U, V 256 bit, X 128 bit, Z 8 bit
inline u128 f4(const std::uint8_t u_le[32], const std::uint8_t v_le[32], const u128& x, std::uint8_t z)
{
    std::vector<std::uint8_t> m;
    smp_detail::put_msb_first(m, u_le, 32);
    smp_detail::put_msb_first(m, v_le, 32);
    m.push_back(z);
    return smp_detail::cmac_le_key(x, m);
}

// 2.2.7: f5(W, N1, N2, A1, A2):  T = AES-CMAC_SALT(W), SALT = 0x6C888391_AAF5A538_60370BDB_5A6083BE
//   MacKey = AES-CMAC_T(Counter = 0 || keyID || N1 || N2 || A1 || A2 || Length = 256)
//   LTK    = AES-CMAC_T(Counter = 1 || keyID || N1 || N2 || A1 || A2 || Length = 256), keyID = 0x62746c65
// returns { MacKey, LTK }
inline std::pair<u128, u128> f5(const std::uint8_t w_le[32], const u128& n1, const u128& n2, const address& a1, const address& a2)
{
    static const u128 salt_be = {{ 0x6C, 0x88, 0x83, 0x91, 0xAA, 0xF5, 0xA5, 0x38, 0x60, 0x37, 0x0B, 0xDB, 0x5A, 0x60, 0x83, 0xBE }};
    std::vector<std::uint8_t> w;
    smp_detail::put_msb_first(w, w_le, 32);
    const u128 t_be = aes_cmac(salt_be, w);

    u128 out[2];
    for (int counter = 0; counter < 2; ++counter) {
        std::vector<std::uint8_t> m;
        m.push_back(static_cast<std::uint8_t>(counter));
        m.push_back(0x62); m.push_back(0x74); m.push_back(0x6c); m.push_back(0x65);
        smp_detail::put_msb_first(m, n1.data(), 16);
        smp_detail::put_msb_first(m, n2.data(), 16);
        smp_detail::put_address56(m, a1);
        smp_detail::put_address56(m, a2);
        m.push_back(0x01); m.push_back(0x00);             // Length = 256
        out[counter] = reversed(aes_cmac(t_be, m));
    }
    return std::make_pair(out[0], out[1]);
}

// 2.2.8: f6(W, N1, N2, R, IOcap, A1, A2) = AES-CMAC_W(N1 || N2 || R || IOcap || A1 || A2)
inline u128 f6(const u128& w, const u128& n1, const u128& n2, const u128& r, const std::uint8_t iocap_le[3],
               const address& a1, const address& a2)
{
    std::vector<std::uint8_t> m;
    smp_detail::put_msb_first(m, n1.data(), 16);
    smp_detail::put_msb_first(m, n2.data(), 16);
    smp_detail::put_msb_first(m, r.data(), 16);
    smp_detail::put_msb_first(m, iocap_le, 3);
    smp_detail::put_address56(m, a1);
    smp_detail::put_address56(m, a2);
    return smp_detail::cmac_le_key(w, m);
}

// 2.2.9: g2(U, V, X, Y) = AES-CMAC_X(U || V || Y) mod 2^32
inline std::uint32_t g2(const std::uint8_t u_le[32], const std::uint8_t v_le[32], const u128& x, const u128& y)
{
    std::vector<std::uint8_t> m;
    smp_detail::put_msb_first(m, u_le, 32);
    smp_detail::put_msb_first(m, v_le, 32);
    smp_detail::put_msb_first(m, y.data(), 16);
    const u128 mac = smp_detail::cmac_le_key(x, m);       // little-endian: the 32 least significant bits are mac[0..3]
    return static_cast<std::uint32_t>(mac[0]) | (static_cast<std::uint32_t>(mac[1]) << 8)
         | (static_cast<std::uint32_t>(mac[2]) << 16) | (static_cast<std::uint32_t>(mac[3]) << 24);
}

} // namespace refimpl

#endif
