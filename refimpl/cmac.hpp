// Reference AES-CMAC, written from RFC 4493 (section 2.3 subkeys, 2.4 MAC generation).
// Byte order: as in the RFC (key[0] / msg[0] / mac[0] = first = most significant octet).
#ifndef VERIF_REFIMPL_CMAC_HPP
#define VERIF_REFIMPL_CMAC_HPP

#include "aes128.hpp"
#include <vector>

namespace refimpl {

namespace cmac_detail {
    // 128-bit left shift by one bit of a big-endian block; returns the bit shifted out
    inline int shl1(const std::uint8_t in[16], std::uint8_t out[16]) {
        int carry = 0;
        for (int i = 15; i >= 0; --i) {
            const int next = in[i] >> 7;
            out[i] = static_cast<std::uint8_t>((in[i] << 1) | carry);
            carry = next;
        }
        return carry;
    }
}

// RFC 4493 2.3 Generate_Subkey
inline void cmac_subkeys(const std::uint8_t key[16], std::uint8_t k1[16], std::uint8_t k2[16])
{
    static const std::uint8_t zero[16] = { 0 };
    std::uint8_t l[16];
    aes128_encrypt(key, zero, l);
    if (cmac_detail::shl1(l, k1)) k1[15] ^= 0x87;     // MSB(L) == 1: K1 = (L << 1) xor Rb
    if (cmac_detail::shl1(k1, k2)) k2[15] ^= 0x87;
}

// RFC 4493 2.4 AES-CMAC
inline void aes_cmac(const std::uint8_t key[16], const std::uint8_t* msg, std::size_t len, std::uint8_t mac[16])
{
    std::uint8_t k1[16], k2[16];
    cmac_subkeys(key, k1, k2);

    std::size_t n = (len + 15) / 16;
    bool complete;
    if (n == 0) { n = 1; complete = false; }
    else complete = (len % 16) == 0;

    std::uint8_t last[16];
    const std::size_t off = 16 * (n - 1);
    if (complete) {
        for (int i = 0; i < 16; ++i) last[i] = static_cast<std::uint8_t>(msg[off + i] ^ k1[i]);
    } else {
        const std::size_t rem = len - off;
        for (std::size_t i = 0; i < 16; ++i) {
            std::uint8_t b = 0;
            if (i < rem) b = msg[off + i];
            else if (i == rem) b = 0x80;                // padding(M_n) = M_n || 1 0^i
            last[i] = static_cast<std::uint8_t>(b ^ k2[i]);
        }
    }

    std::uint8_t x[16] = { 0 }, y[16];
    for (std::size_t blk = 0; blk + 1 < n; ++blk) {
        for (int i = 0; i < 16; ++i) y[i] = static_cast<std::uint8_t>(x[i] ^ msg[16 * blk + i]);
        aes128_encrypt(key, y, x);
    }
    for (int i = 0; i < 16; ++i) y[i] = static_cast<std::uint8_t>(x[i] ^ last[i]);
    aes128_encrypt(key, y, mac);
}

inline u128 aes_cmac(const u128& key_be, const std::vector<std::uint8_t>& msg_be)
{
    u128 r;
    static const std::uint8_t none = 0;
    aes_cmac(key_be.data(), msg_be.empty() ? &none : msg_be.data(), msg_be.size(), r.data());
    return r;
}

} // namespace refimpl

#endif
