// Reference Channel Selection Algorithm #1, written from Core Vol 6 Part B 4.5.8.2:
//   unmappedChannel = (lastUnmappedChannel + hopIncrement) mod 37
//   lastUnmappedChannel is 0 for the first connection event of a connection; afterwards it is the
//   unmappedChannel of the previous connection event (whether or not that event was listened to, and
//   independent of channel map updates).
//   If unmappedChannel is a used channel in the channel map it is the data channel index; otherwise
//   remappingIndex = unmappedChannel mod numUsedChannels selects from the table of used channels in
//   ascending order, indexed from zero.
//
// Channel map: bit i (0..36) of `map` set = data channel i used (ChM as a little-endian 40 bit number:
// map = ChM[0] | ChM[1] << 8 | ... | ChM[4] << 32).  Bits 37..39 are reserved and ignored.
// The specification requires at least two used channels (hop 5..16); with no used channel the functions
// return -1, with one used channel they return that channel.
#ifndef VERIF_REFIMPL_CSA1_HPP
#define VERIF_REFIMPL_CSA1_HPP

#include <cstdint>

namespace refimpl {

inline std::uint64_t csa1_map_from_bytes(const std::uint8_t chm[5])
{
    std::uint64_t m = 0;
    for (int i = 0; i < 5; ++i) m |= static_cast<std::uint64_t>(chm[i]) << (8 * i);
    return m;
}

// data channel index for a given unmapped channel (0..36) under `map`
inline int csa1_remap(std::uint64_t map, unsigned unmapped)
{
    map &= (static_cast<std::uint64_t>(1) << 37) - 1;
    if ((map >> unmapped) & 1) return static_cast<int>(unmapped);
    int used[37], n = 0;
    for (int c = 0; c < 37; ++c) if ((map >> c) & 1) used[n++] = c;
    if (n == 0) return -1;
    return used[unmapped % static_cast<unsigned>(n)];
}

// one step: lastUnmapped -> unmapped of the next event
inline unsigned csa1_next_unmapped(unsigned last_unmapped, unsigned hop) { return (last_unmapped + hop) % 37u; }

// unmapped channel of the connection event with index `event_index` (0 = first event of the connection;
// the index is the number of events elapsed since the connection was created, NOT the 16-bit
// connEventCounter: the chain continues across the counter wrap)
inline unsigned csa1_unmapped(unsigned hop, std::uint64_t event_index)
{
    // (0 + hop * (event_index + 1)) mod 37, computed without overflow
    return static_cast<unsigned>((static_cast<std::uint64_t>(hop % 37u) * ((event_index + 1) % 37u)) % 37u);
}

// data channel index used in connection event `event_index` when `map` is the channel map in force for that event
inline int csa1(std::uint64_t map, unsigned hop, std::uint64_t event_index)
{
    return csa1_remap(map, csa1_unmapped(hop, event_index));
}

} // namespace refimpl

#endif
