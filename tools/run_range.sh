#!/bin/bash
# run_range.sh <tier> <logname> <Cxx>...  : runs the given checks once, summary in build/<logname>.log
cd "$(dirname "$0")/.."
tier=$1; out=build/$2.log; shift 2; : > $out
for p in "$@"; do
  python3 check.py $p --tier $tier > build/run_${tier}_$p.log 2>&1
  echo "$p rc=$? $(tail -1 build/run_${tier}_$p.log | cut -c1-160)" >> $out
done
echo finished >> $out
