#!/usr/bin/env python3
"""prints the prompt for a seeded-change sub-agent: seed_prompt.py <Cxx> <slot dir>   (contains nothing from /verif but the property text)"""
import json, sys, os
pid, slot = sys.argv[1], sys.argv[2]
p = [json.loads(l) for l in open(os.path.join(os.path.dirname(os.path.dirname(os.path.abspath(__file__))), "properties.jsonl")) if json.loads(l)["id"] == pid][0]
print(f"""You are given a private git worktree of the open-source C++ library Bluetoe (header-only BLE GATT server, ATT handler, link layer, security manager, nRF bindings) at {slot}. Work ONLY inside {slot}; never read or write anything under /verif or /repo, and do not look for verification tooling elsewhere on this machine.

The repository's unit tests are already built in {slot}/_build (CMake + Ninja, RelWithDebInfo). After editing sources, `ninja -C {slot}/_build -k 0 -j 6 2>&1 | tail -5` rebuilds only what your change affects and `cd {slot}/_build && ctest -j4 2>&1 | tail -12` runs the suite. Expected result on the unchanged tree: 70 tests pass and exactly these 6 are reported 'Not Run' because they never compile in this environment: service_tests, characteristic_value_tests, advertising_tests, gap_service_tests, attribute_handle_tests, battery_tests. (Test executables touching link_layer.hpp take ~1.5 min each to compile.)

PROPERTY ({p['id']}: {p['title']})
{p['statement']}
Quantified over: {p['quantifier']['text']}
Code it is anchored in: {', '.join(p['anchors']['files'])}

TASK: write ONE realistic change to the library sources under {slot}/bluetoe/ that makes this property FALSE, while the library still compiles and all 70 passing unit tests still pass. The change must look like a plausible maintenance/refactoring slip (off-by-one, dropped or weakened check, reordered statements, wrong variable, state not reset, condition on the wrong flag, two cooperating sites that each look fine alone ...), not sabotage, and it must need something SPECIFIC to manifest — a particular multi-step sequence of operations, an unusual input or boundary value, a particular interleaving or fault at a particular point, a particular configuration — not something that any ordinary use would expose at once. Prefer a change in a spot the existing unit tests do not pin down.

Also write a DEMONSTRATION: a small standalone C++ program under {slot}/demo/ (plus {slot}/demo/run.sh that compiles and runs it; the script receives the worktree path in the environment variable WT, must use it for all include paths, e.g. `g++ -std=c++11 -include iterator -include cstring -I$WT -I$WT/bluetoe/link_layer/include -I$WT/bluetoe/utility/include -I$WT/bluetoe/sm/include -I$WT/tests/test_tools ...`, may link $WT/_build/tests/test_tools/libtest_tools.a and $WT/_build/bluetoe/utility/libbluetoe_utility.a and other prebuilt libraries found under $WT/_build, and must exit 0 iff the program's checks pass). The demonstration must exit 0 on the UNCHANGED tree and non-zero WITH your change. Look at {slot}/tests/ for how the library is instantiated and driven in tests.

DELIVER (all inside {slot}):
- out/patch.diff : `git -C {slot} diff -- bluetoe` (only your change to the library; apply-able with `patch -p1`)
- demo/ : the demonstration and run.sh
- out/notes.md : what the change is, why it breaks the property, exactly what is needed for it to manifest, and the commands you ran with their results (ninja/ctest summary with the change; demo exit code with and without the change).
Verify everything yourself before finishing: with the change applied ctest must show the same 70 passing tests; `git stash`-style check that the demo passes without the change and fails with it. Leave the change APPLIED in the worktree when you finish. Keep command output short (pipe through tail/cut). Your final message: a 10-line summary (files, what needs to happen for the defect to show, verification results).""")
