#!/usr/bin/env python3
"""seeded_verify.py <seed-id> <props> [--slot=/tmp/wt/slot0]
Confirms a seeded change kept under /verif/seeded/<seed-id>/ (patch.diff + demo/run.sh):
 1. in a prebuilt scratch worktree: demo passes on the unchanged tree;
 2. patch applies, the repository's tests still build and 70 pass, demo fails;
 3. the given checks (comma separated property ids) are run against a patched scratch copy (tools/try_patch.py);
 4. worktree restored.  Results are written to seeded/<id>/verify.json."""
import json, os, subprocess, sys, time
HERE = os.path.dirname(os.path.dirname(os.path.abspath(__file__)))
sid, props = sys.argv[1], sys.argv[2].split(",")
slot = "/tmp/wt/slot0"
for a in sys.argv[3:]:
    if a.startswith("--slot="):
        slot = a.split("=", 1)[1]
sd = os.path.join(HERE, "seeded", sid)
patch = os.path.join(sd, "patch.diff")
res = {"seed": sid, "props": props, "at": time.strftime("%Y-%m-%d %H:%M")}

def sh(cmd, **kw):
    return subprocess.run(cmd, shell=True, capture_output=True, text=True, **kw)

def demo():
    r = sh("cd %s && rm -rf demo && cp -r %s/demo demo && WT=%s bash demo/run.sh" % (slot, sd, slot), timeout=3600)
    return r.returncode, (r.stdout + r.stderr)[-600:]

applied = "--applied" in sys.argv      # the change is still applied (and built) in the slot the sub-agent used
if applied:
    d = sh("git -C %s diff -- bluetoe | diff -q - %s" % (slot, patch))
    res["slot_diff_equals_patch"] = d.returncode == 0
    b = sh("ninja -C %s/_build -k 0 -j 8 2>&1 | grep -c FAILED" % slot, timeout=10800)
    res["ninja_failed_targets"] = int((b.stdout or "0").strip() or 0)
    t = sh("cd %s/_build && ctest -j6 2>&1 | grep -E 'tests passed|\\*\\*\\*Failed' | head -5" % slot, timeout=7200)
    res["ctest"] = t.stdout.strip()
    rc2, out2 = demo()
    res["demo_patched_rc"] = rc2
    res["demo_patched_tail"] = out2
    sh("git -C %s checkout -- . && git -C %s clean -fdq -e _build" % (slot, slot))
    rc, out = demo()          # the demonstration builds itself from the sources; only static helper libraries come from _build
    res["demo_unchanged_rc"] = rc
    sh("git -C %s clean -fdq -e _build" % slot)
    # bring the prebuilt tests of the slot back to the unchanged tree in the background (for the next sub-agent)
    subprocess.Popen("rm -f %s/.ready; (ninja -C %s/_build -k 0 -j 6 > /dev/null 2>&1; touch %s/.ready) &" % (slot, slot, slot), shell=True)
else:
    sh("git -C %s checkout -- . && git -C %s clean -fdq -e _build" % (slot, slot))
    rc, out = demo()
    res["demo_unchanged_rc"] = rc
    r = sh("cd %s && patch -p1 < %s" % (slot, patch))
    res["patch_applies"] = r.returncode == 0
    if r.returncode == 0:
        b = sh("ninja -C %s/_build -k 0 -j 8 2>&1 | grep -c FAILED" % slot, timeout=10800)
        res["ninja_failed_targets"] = int((b.stdout or "0").strip() or 0)
        t = sh("cd %s/_build && ctest -j6 2>&1 | grep -E 'tests passed|\\*\\*\\*Failed' | head -5" % slot, timeout=7200)
        res["ctest"] = t.stdout.strip()
        rc2, out2 = demo()
        res["demo_patched_rc"] = rc2
        res["demo_patched_tail"] = out2
    sh("git -C %s checkout -- . && git -C %s clean -fdq -e _build" % (slot, slot))
    sh("ninja -C %s/_build -k 0 -j 8" % slot, timeout=10800)
c = sh("cd %s && python3 tools/try_patch.py %s %s" % (HERE, patch, " ".join(props)), timeout=14400)
res["checks_output"] = [l[:400] for l in c.stdout.splitlines() if l.startswith(("==", "VIOLATION", "INCONCLUSIVE", "KNOWN"))][:40]
res["caught_by"] = sorted({l.split()[1] for l in c.stdout.splitlines() if l.startswith("== ") and "rc=1" in l})
json.dump(res, open(os.path.join(sd, "verify.json"), "w"), indent=1)
print(json.dumps(res, indent=1)[:3000])
