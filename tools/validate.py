#!/usr/bin/env python3
"""validate.py: MANIFEST.json and every evidence/*.json against the schemas in /root/.vp (run with python3-vt: needs jsonschema)."""
import glob, json, os, sys
import jsonschema
here = os.path.dirname(os.path.dirname(os.path.abspath(__file__)))
bad = 0
def chk(path, schema):
    global bad
    try:
        jsonschema.validate(json.load(open(path)), json.load(open(schema)))
    except Exception as e:
        bad += 1; print("INVALID", path, str(e)[:300])
chk(os.path.join(here, "MANIFEST.json"), "/root/.vp/MANIFEST.schema.json")
ev = sorted(glob.glob(os.path.join(here, "evidence", "*.json")))
for p in ev:
    chk(p, "/root/.vp/EVIDENCE.schema.json")
m = json.load(open(os.path.join(here, "MANIFEST.json")))
print("manifest + %d evidence files checked, %d invalid" % (len(ev), bad))
sys.exit(1 if bad else 0)
