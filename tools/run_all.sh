#!/bin/bash
# runs every registered quick check once, writes a summary to build/run_all.log
cd "$(dirname "$0")/.."
out=build/run_all.log; : > $out
for p in $(python3 check.py --list | cut -d' ' -f1); do
  python3 check.py $p --tier ${1:-quick} > build/run_$p.log 2>&1
  echo "$p rc=$? $(tail -1 build/run_$p.log | cut -c1-160)" >> $out
done
echo finished >> $out
