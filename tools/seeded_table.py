#!/usr/bin/env python3
"""prints the DESIGN.md 8.5 table (seeded changes and which checks catch them) from seeded/*/meta.json"""
import json, glob, os
HERE = os.path.dirname(os.path.dirname(os.path.abspath(__file__)))
print("| seeded change | property | needs | outcome |")
print("|---|---|---|---|")
for d in sorted(glob.glob(os.path.join(HERE, "seeded", "*"))):
    m = os.path.join(d, "meta.json")
    if not os.path.exists(m):
        continue
    j = json.load(open(m))
    print("| `%s` | %s | %s | %s |" % (os.path.basename(d), j["property"], j["needs_to_manifest"].replace("|", "/"), "; ".join(j["caught_by"]).replace("|", "/")))
