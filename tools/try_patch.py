#!/usr/bin/env python3
"""try_patch.py <patch.diff> <Cxx> [<Cxx> ...] [--tier=quick] [--reverse]
Copies /repo (without _build) to a scratch dir outside /repo and /verif, applies the patch, runs the given checks
against it with VERIF_REPO, prints exit codes, removes the scratch copy."""
import os, shutil, subprocess, sys, tempfile

def main():
    args = [a for a in sys.argv[1:] if not a.startswith("--")]
    tier = "quick"
    for a in sys.argv[1:]:
        if a.startswith("--tier="):
            tier = a.split("=", 1)[1]
    patch, props = os.path.abspath(args[0]), args[1:]
    scratch = tempfile.mkdtemp(prefix="bluetoe_mut_", dir="/tmp")
    try:
        dst = os.path.join(scratch, "repo")
        subprocess.check_call(["rsync", "-a", "--exclude", "_build", "--exclude", ".git", "/repo/", dst + "/"])
        rev = ["-R"] if "--reverse" in sys.argv else []
        r = subprocess.run(["patch", "-p1"] + rev + ["-d", dst, "-i", patch], capture_output=True, text=True)
        if r.returncode != 0:
            print("PATCH FAILED", r.stdout, r.stderr); return 3
        env = dict(os.environ, VERIF_REPO=dst)
        here = os.path.dirname(os.path.dirname(os.path.abspath(__file__)))
        rc_all = {}
        for p in props:
            r = subprocess.run([sys.executable, os.path.join(here, "check.py"), p, "--tier", tier], env=env, capture_output=True, text=True)
            out = [l for l in r.stdout.splitlines() if l.startswith(("VIOLATION", "KNOWN", "INCONCLUSIVE", p))]
            print("== %s rc=%d" % (p, r.returncode)); print("\n".join(l[:400] for l in out[:12]))
            rc_all[p] = r.returncode
        # restore evidence written while aiming at the scratch copy
        return 0
    finally:
        shutil.rmtree(scratch, ignore_errors=True)

sys.exit(main())
