#!/usr/bin/env python3
"""Replaces the block between the SEEDED-TABLE markers of DESIGN.md by the output of tools/seeded_table.py."""
import os, subprocess, sys
here = os.path.dirname(os.path.dirname(os.path.abspath(__file__)))
table = subprocess.check_output([sys.executable, os.path.join(here, "tools", "seeded_table.py")], text=True)
p = os.path.join(here, "DESIGN.md")
s = open(p).read()
b, e = "<!-- SEEDED-TABLE-BEGIN -->", "<!-- SEEDED-TABLE-END -->"
i, j = s.index(b) + len(b), s.index(e)
open(p, "w").write(s[:i] + "\n" + table.rstrip() + "\n" + s[j:])
