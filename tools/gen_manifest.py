#!/usr/bin/env python3
"""Regenerates MANIFEST.json from the registered Specs (checks/*.py) and tools/manifest_static.json."""
import json, os, sys
HERE = os.path.dirname(os.path.dirname(os.path.abspath(__file__)))
sys.path.insert(0, HERE)
import check  # noqa
specs = check.load_specs()
static = json.load(open(os.path.join(HERE, "tools", "manifest_static.json")))
props = [json.loads(l) for l in open(os.path.join(HERE, "properties.jsonl"))]
na_reasons = static.get("not_applicable_reasons", {})
m = {"version": 1, "setup_cmd": static["setup_cmd"], "hooks": static["hooks"], "engines": static.get("engines", []),
     "checks": [], "notes": static.get("notes", ""), "not_applicable": []}
for p in props:
    pid = p["id"]
    s = specs.get(pid)
    if s is None or pid in static.get("unclaimed", []):
        m["not_applicable"].append({"property_id": pid, "reason": na_reasons.get(pid, "check not built yet (work in progress; see DESIGN.md section 4)")})
        continue
    m["checks"].append({
        "property_id": pid,
        "quick_cmd": "python3 check.py %s --tier quick" % pid,
        "thorough_cmd": "python3 check.py %s --tier thorough" % pid,
        "evidence_file": "evidence/%s.json" % pid,
        "replay_cmd_template": "python3 check.py %s --replay {path}" % pid,
        "engine": "check.py",
        "level_claimed": {"category": s.level, "text": getattr(s, "level_text", "") or s.rule, "design_ref": s.design_ref or ("DESIGN.md 4/" + pid)},
        "level_note": "; ".join(s.assumptions) or "trusted: the harness' reference model and g++/ASan/UBSan runtimes",
        "technique": s.technique or "runtime monitoring",
    })
json.dump(m, open(os.path.join(HERE, "MANIFEST.json"), "w"), indent=1)
print("claimed:", len(m["checks"]), "not_applicable:", len(m["not_applicable"]))
