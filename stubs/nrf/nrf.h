// Host stub of the nRF52 device header (<nrf.h>) for building Bluetoe's Nordic binding
// (bluetoe/bindings/nordic/nrf52/security_tool_box.cpp, nrf52.cpp, include/bluetoe/nrf.hpp) UNMODIFIED on
// the host:   g++ -std=c++14 -fpermissive -no-pie -I/verif/stubs/nrf ...
//   -fpermissive : the binding casts pointers to std::uint32_t for the DMA pointer registers
//   -no-pie      : statics then live below 4 GiB, so those casts are lossless and the emulated peripherals
//                  can turn the register value back into a pointer
//
// The register file is plain memory (one static object per peripheral, `volatile uint32_t` members with the
// CMSIS names).  The binding busy-waits on event registers after writing a task register; so the few task
// registers that have an emulated effect are objects of a class type whose assignment operator performs the
// operation synchronously:
//   NRF_RNG->TASKS_START = 1      VALUE = next byte of the test controlled stream (nrf_stub::rng()),
//                                 EVENTS_VALRDY = 1
//   NRF_ECB->TASKS_STARTECB = 1   AES-128 (refimpl/aes128.hpp, FIPS-197 byte order exactly as the ECB
//                                 peripheral: KEY[16] | CLEARTEXT[16] | CIPHERTEXT[16] at ECBDATAPTR),
//                                 EVENTS_ENDECB = 1 (EVENTS_ERRORECB = 1 if ECBDATAPTR is 0)
//   NRF_CLOCK->TASKS_HFCLKSTART / TASKS_LFCLKSTART = 1    EVENTS_HFCLKSTARTED / EVENTS_LFCLKSTARTED = 1
// Everything else is inert storage.  Bit field constants carry the values of the nRF52832/52840 MDK where
// the binding's logic depends on them.
//
// Test control (C++ only), all in namespace nrf_stub:
//   rng().set_stream(fn, ctx)   byte source:  std::uint8_t fn(void* ctx)
//   rng().bytes_drawn           number of bytes handed out since the last reset
//   ecb().blocks                number of ECB operations performed
//   reset()                     zero all peripherals and counters (the byte source is kept)
#ifndef VERIF_STUB_NRF_H
#define VERIF_STUB_NRF_H

#ifndef __cplusplus
#error "the nRF stub is a C++ header (the binding's C file uECC.c does not include nrf.h)"
#endif

#include <cstdint>
#include <cstring>
#include <cstdio>
#include <cstdlib>

#include "aes128.hpp"      // /verif/refimpl

#define NRF52            1
#define NRF52_SERIES     1
#define NRF52832_XXAA    1
#define __NVIC_PRIO_BITS 3

typedef enum {
    Reset_IRQn = -15, NonMaskableInt_IRQn = -14, HardFault_IRQn = -13, SVCall_IRQn = -5, PendSV_IRQn = -2, SysTick_IRQn = -1,
    POWER_CLOCK_IRQn = 0, RADIO_IRQn = 1, UARTE0_UART0_IRQn = 2, GPIOTE_IRQn = 6, TIMER0_IRQn = 8, TIMER1_IRQn = 9,
    TIMER2_IRQn = 10, RTC0_IRQn = 11, TEMP_IRQn = 12, RNG_IRQn = 13, ECB_IRQn = 14, CCM_AAR_IRQn = 15, RTC1_IRQn = 17
} IRQn_Type;

namespace nrf_stub {

typedef volatile std::uint32_t reg;

// a task register with a synchronous effect; convertible to the plain register it stands for so that it can
// still be passed as `volatile std::uint32_t&` (PPI end point assignment takes its address)
template <void (*Action)()>
struct task_reg {
    reg v;
    task_reg& operator=(std::uint32_t x) { v = x; if (x) Action(); return *this; }
    operator volatile std::uint32_t&() { return v; }
};

inline void rng_start();
inline void ecb_start();
inline void hfclk_start();
inline void lfclk_start();

} // namespace nrf_stub

// ------------------------------------------------------------------------------------------ peripheral types
struct NRF_RNG_Type {
    nrf_stub::task_reg<nrf_stub::rng_start> TASKS_START;
    nrf_stub::reg TASKS_STOP, EVENTS_VALRDY, SHORTS, INTENSET, INTENCLR, CONFIG, VALUE;
};

struct NRF_ECB_Type {
    nrf_stub::task_reg<nrf_stub::ecb_start> TASKS_STARTECB;
    nrf_stub::reg TASKS_STOPECB, EVENTS_ENDECB, EVENTS_ERRORECB, INTENSET, INTENCLR, ECBDATAPTR;
};

struct NRF_CLOCK_Type {
    nrf_stub::task_reg<nrf_stub::hfclk_start> TASKS_HFCLKSTART;
    nrf_stub::reg TASKS_HFCLKSTOP;
    nrf_stub::task_reg<nrf_stub::lfclk_start> TASKS_LFCLKSTART;
    nrf_stub::reg TASKS_LFCLKSTOP, TASKS_CAL, TASKS_CTSTART, TASKS_CTSTOP;
    nrf_stub::reg EVENTS_HFCLKSTARTED, EVENTS_LFCLKSTARTED, EVENTS_DONE, EVENTS_CTTO;
    nrf_stub::reg INTENSET, INTENCLR, HFCLKRUN, HFCLKSTAT, LFCLKRUN, LFCLKSTAT, LFCLKSRCCOPY, LFCLKSRC, CTIV, TRACECONFIG;
};

struct NRF_RADIO_Type {
    nrf_stub::reg TASKS_TXEN, TASKS_RXEN, TASKS_START, TASKS_STOP, TASKS_DISABLE, TASKS_RSSISTART, TASKS_RSSISTOP,
                  TASKS_BCSTART, TASKS_BCSTOP;
    nrf_stub::reg EVENTS_READY, EVENTS_ADDRESS, EVENTS_PAYLOAD, EVENTS_END, EVENTS_DISABLED, EVENTS_DEVMATCH,
                  EVENTS_DEVMISS, EVENTS_RSSIEND, EVENTS_BCMATCH, EVENTS_CRCOK, EVENTS_CRCERROR;
    nrf_stub::reg SHORTS, INTENSET, INTENCLR, CRCSTATUS, RXMATCH, RXCRC, DAI, PACKETPTR, FREQUENCY, TXPOWER, MODE,
                  PCNF0, PCNF1, BASE0, BASE1, PREFIX0, PREFIX1, TXADDRESS, RXADDRESSES, CRCCNF, CRCPOLY, CRCINIT,
                  TIFS, RSSISAMPLE, STATE, DATAWHITEIV, BCC, DAB[8], DAP[8], DACNF, MODECNF0, POWER;
};

struct NRF_TIMER_Type {
    nrf_stub::reg TASKS_START, TASKS_STOP, TASKS_COUNT, TASKS_CLEAR, TASKS_SHUTDOWN, TASKS_CAPTURE[6];
    nrf_stub::reg EVENTS_COMPARE[6];
    nrf_stub::reg SHORTS, INTENSET, INTENCLR, MODE, BITMODE, PRESCALER, CC[6];
};

struct NRF_RTC_Type {
    nrf_stub::reg TASKS_START, TASKS_STOP, TASKS_CLEAR, TASKS_TRIGOVRFLW;
    nrf_stub::reg EVENTS_TICK, EVENTS_OVRFLW, EVENTS_COMPARE[4];
    nrf_stub::reg INTENSET, INTENCLR, EVTEN, EVTENSET, EVTENCLR, COUNTER, PRESCALER, CC[4];
};

struct NRF_TEMP_Type {
    nrf_stub::reg TASKS_START, TASKS_STOP, EVENTS_DATARDY, INTENSET, INTENCLR;
    volatile std::int32_t TEMP;
};

struct NRF_CCM_Type {
    nrf_stub::reg TASKS_KSGEN, TASKS_CRYPT, TASKS_STOP, TASKS_RATEOVERRIDE;
    nrf_stub::reg EVENTS_ENDKSGEN, EVENTS_ENDCRYPT, EVENTS_ERROR;
    nrf_stub::reg SHORTS, INTENSET, INTENCLR, MICSTATUS, ENABLE, MODE, CNFPTR, INPTR, OUTPTR, SCRATCHPTR, MAXPACKETSIZE, RATEOVERRIDE;
};

struct NRF_AAR_Type {
    nrf_stub::reg TASKS_START, TASKS_STOP, EVENTS_END, EVENTS_RESOLVED, EVENTS_NOTRESOLVED;
    nrf_stub::reg INTENSET, INTENCLR, STATUS, ENABLE, NIRK, IRKPTR, ADDRPTR, SCRATCHPTR;
};

struct PPI_CH_Type { nrf_stub::reg EEP, TEP; };
struct PPI_TASKS_CHG_Type { nrf_stub::reg EN, DIS; };
struct PPI_FORK_Type { nrf_stub::reg TEP; };
struct NRF_PPI_Type {
    PPI_TASKS_CHG_Type TASKS_CHG[6];
    nrf_stub::reg CHEN, CHENSET, CHENCLR;
    PPI_CH_Type CH[20];
    nrf_stub::reg CHG[6];
    PPI_FORK_Type FORK[32];
};

struct NRF_GPIOTE_Type {
    nrf_stub::reg TASKS_OUT[8], TASKS_SET[8], TASKS_CLR[8], EVENTS_IN[8], EVENTS_PORT, INTENSET, INTENCLR, CONFIG[8];
};

struct NRF_GPIO_Type {
    nrf_stub::reg OUT, OUTSET, OUTCLR, IN, DIR, DIRSET, DIRCLR, LATCH, DETECTMODE, PIN_CNF[32];
};

// no OVERRIDEEN member: the nRF52 has none, nrf52.cpp selects its no-op override_correction() by SFINAE on it
struct NRF_FICR_Type {
    nrf_stub::reg CODEPAGESIZE, CODESIZE, DEVICEID[2], ER[4], IR[4], DEVICEADDRTYPE, DEVICEADDR[2];
};

struct NVIC_Type {
    nrf_stub::reg ISER[8], ICER[8], ISPR[8], ICPR[8], IABR[8];
    volatile std::uint8_t IP[240];
    nrf_stub::reg STIR;
};

// ------------------------------------------------------------------------------------------ emulator state
namespace nrf_stub {

struct rng_state {
    typedef std::uint8_t (*source_fn)(void*);
    source_fn          source;
    void*              ctx;
    unsigned long long bytes_drawn;
    std::uint64_t      fallback;       // xorshift state of the default stream
    void set_stream(source_fn f, void* c) { source = f; ctx = c; }
};
struct ecb_state {
    unsigned long long blocks;
    unsigned long long errors;
};

struct device {
    NRF_RNG_Type    rng_regs;
    NRF_ECB_Type    ecb_regs;
    NRF_CLOCK_Type  clock;
    NRF_RADIO_Type  radio;
    NRF_TIMER_Type  timer0, timer1, timer2;
    NRF_RTC_Type    rtc0, rtc1;
    NRF_TEMP_Type   temp;
    NRF_CCM_Type    ccm;
    NRF_AAR_Type    aar;
    NRF_PPI_Type    ppi;
    NRF_GPIOTE_Type gpiote;
    NRF_GPIO_Type   gpio;
    NRF_FICR_Type   ficr;
    NVIC_Type       nvic;
    std::uint32_t   primask;
    unsigned long long wfi_calls;
    rng_state       rng;
    ecb_state       ecb;
};

// one instance per program (function-local static of an inline function: shared by all translation units)
inline device& dev()
{
    static device d;           // zero initialised
    return d;
}

inline rng_state& rng() { return dev().rng; }
inline ecb_state& ecb() { return dev().ecb; }

inline void reset()
{
    device& d = dev();
    const rng_state keep = d.rng;
    std::memset(static_cast<void*>(&d), 0, sizeof d);
    d.rng.source = keep.source; d.rng.ctx = keep.ctx;
}

inline void rng_start()
{
    device& d = dev();
    std::uint8_t b;
    if (d.rng.source) b = d.rng.source(d.rng.ctx);
    else {
        // default stream when a test did not install one: xorshift64, fixed seed
        std::uint64_t x = d.rng.fallback ? d.rng.fallback : 0x9e3779b97f4a7c15ull;
        x ^= x << 13; x ^= x >> 7; x ^= x << 17;
        d.rng.fallback = x;
        b = static_cast<std::uint8_t>(x >> 32);
    }
    ++d.rng.bytes_drawn;
    d.rng_regs.VALUE = b;
    d.rng_regs.EVENTS_VALRDY = 1;
}

inline void ecb_start()
{
    device& d = dev();
    std::uint8_t* p = reinterpret_cast<std::uint8_t*>(static_cast<std::uintptr_t>(d.ecb_regs.ECBDATAPTR));
    if (!p) { ++d.ecb.errors; d.ecb_regs.EVENTS_ERRORECB = 1; return; }
    std::uint8_t out[16];
    refimpl::aes128_encrypt(p, p + 16, out);
    std::memcpy(p + 32, out, 16);
    ++d.ecb.blocks;
    d.ecb_regs.EVENTS_ENDECB = 1;
}

inline void hfclk_start() { dev().clock.EVENTS_HFCLKSTARTED = 1; dev().clock.HFCLKSTAT = (1u << 16) | 1u; }
inline void lfclk_start() { dev().clock.EVENTS_LFCLKSTARTED = 1; dev().clock.LFCLKSTAT = (1u << 16) | (dev().clock.LFCLKSRC & 3u); }

} // namespace nrf_stub

// ------------------------------------------------------------------------------------------ instances
#define NRF_RNG     (&::nrf_stub::dev().rng_regs)
#define NRF_ECB     (&::nrf_stub::dev().ecb_regs)
#define NRF_CLOCK   (&::nrf_stub::dev().clock)
#define NRF_RADIO   (&::nrf_stub::dev().radio)
#define NRF_TIMER0  (&::nrf_stub::dev().timer0)
#define NRF_TIMER1  (&::nrf_stub::dev().timer1)
#define NRF_TIMER2  (&::nrf_stub::dev().timer2)
#define NRF_RTC0    (&::nrf_stub::dev().rtc0)
#define NRF_RTC1    (&::nrf_stub::dev().rtc1)
#define NRF_TEMP    (&::nrf_stub::dev().temp)
#define NRF_CCM     (&::nrf_stub::dev().ccm)
#define NRF_AAR     (&::nrf_stub::dev().aar)
#define NRF_PPI     (&::nrf_stub::dev().ppi)
#define NRF_GPIOTE  (&::nrf_stub::dev().gpiote)
#define NRF_GPIO    (&::nrf_stub::dev().gpio)
#define NRF_P0      (&::nrf_stub::dev().gpio)
#define NRF_FICR    (&::nrf_stub::dev().ficr)
#define NVIC        (&::nrf_stub::dev().nvic)

// ------------------------------------------------------------------------------------------ CMSIS core shims
inline void NVIC_SetPriority(IRQn_Type irq, std::uint32_t prio) { if (irq >= 0) NVIC->IP[irq] = static_cast<std::uint8_t>(prio << (8 - __NVIC_PRIO_BITS)); }
inline std::uint32_t NVIC_GetPriority(IRQn_Type irq) { return irq >= 0 ? static_cast<std::uint32_t>(NVIC->IP[irq]) >> (8 - __NVIC_PRIO_BITS) : 0; }
inline void NVIC_EnableIRQ(IRQn_Type irq) { if (irq >= 0) NVIC->ISER[irq >> 5] = NVIC->ISER[irq >> 5] | (1u << (irq & 31)); }
inline void NVIC_DisableIRQ(IRQn_Type irq) { if (irq >= 0) NVIC->ISER[irq >> 5] = NVIC->ISER[irq >> 5] & ~(1u << (irq & 31)); }
inline void NVIC_ClearPendingIRQ(IRQn_Type irq) { if (irq >= 0) NVIC->ISPR[irq >> 5] = NVIC->ISPR[irq >> 5] & ~(1u << (irq & 31)); }
inline void NVIC_SetPendingIRQ(IRQn_Type irq) { if (irq >= 0) NVIC->ISPR[irq >> 5] = NVIC->ISPR[irq >> 5] | (1u << (irq & 31)); }
inline std::uint32_t __get_PRIMASK() { return ::nrf_stub::dev().primask; }
inline void __set_PRIMASK(std::uint32_t v) { ::nrf_stub::dev().primask = v; }
inline void __disable_irq() { ::nrf_stub::dev().primask = 1; }
inline void __enable_irq() { ::nrf_stub::dev().primask = 0; }
inline void __WFI() { ++::nrf_stub::dev().wfi_calls; }
inline void __WFE() {}
inline void __SEV() {}
inline void __NOP() {}
inline void __DSB() {}
inline void __ISB() {}
inline void __DMB() {}

// ------------------------------------------------------------------------------------------ bit fields
// RNG
#define RNG_CONFIG_DERCEN_Msk               (1u << 0)
#define RNG_SHORTS_VALRDY_STOP_Msk          (1u << 0)
// RADIO
#define RADIO_SHORTS_READY_START_Msk        (1u << 0)
#define RADIO_SHORTS_END_DISABLE_Msk        (1u << 1)
#define RADIO_SHORTS_DISABLED_TXEN_Msk      (1u << 2)
#define RADIO_SHORTS_DISABLED_RXEN_Msk      (1u << 3)
#define RADIO_SHORTS_ADDRESS_RSSISTART_Msk  (1u << 4)
#define RADIO_SHORTS_END_START_Msk          (1u << 5)
#define RADIO_SHORTS_ADDRESS_BCSTART_Msk    (1u << 6)
#define RADIO_INTENSET_DISABLED_Msk         (1u << 4)
#define RADIO_INTENCLR_DISABLED_Msk         (1u << 4)
#define RADIO_CRCSTATUS_CRCSTATUS_Msk       (1u << 0)
#define RADIO_CRCSTATUS_CRCSTATUS_CRCOk     1u
#define RADIO_CRCSTATUS_CRCSTATUS_CRCError  0u
#define RADIO_MODE_MODE_Pos                 0
#define RADIO_MODE_MODE_Ble_1Mbit           3u
#define RADIO_MODE_MODE_Ble_2Mbit           4u
#define RADIO_PCNF0_LFLEN_Pos               0
#define RADIO_PCNF0_S0LEN_Pos               8
#define RADIO_PCNF0_S1LEN_Pos               16
#define RADIO_PCNF0_S1INCL_Pos              20
#define RADIO_PCNF0_S1INCL_Automatic        0u
#define RADIO_PCNF0_S1INCL_Include          1u
#define RADIO_PCNF0_PLEN_Pos                24
#define RADIO_PCNF0_PLEN_Msk                (3u << 24)
#define RADIO_PCNF0_PLEN_8bit               0u
#define RADIO_PCNF0_PLEN_16bit              1u
#define RADIO_PCNF1_MAXLEN_Pos              0
#define RADIO_PCNF1_MAXLEN_Msk              (0xffu << 0)
#define RADIO_PCNF1_STATLEN_Pos             8
#define RADIO_PCNF1_BALEN_Pos               16
#define RADIO_PCNF1_ENDIAN_Pos              24
#define RADIO_PCNF1_ENDIAN_Little           0u
#define RADIO_PCNF1_WHITEEN_Pos             25
#define RADIO_PCNF1_WHITEEN_Enabled         1u
#define RADIO_CRCCNF_LEN_Pos                0
#define RADIO_CRCCNF_LEN_Three              3u
#define RADIO_CRCCNF_SKIPADDR_Pos           8
#define RADIO_CRCCNF_SKIPADDR_Skip          1u
#define RADIO_STATE_STATE_Msk               (0xfu << 0)
#define RADIO_STATE_STATE_Disabled          0u
#define RADIO_MODECNF0_DTX_Pos              8
#define RADIO_MODECNF0_DTX_Center           2u
#define RADIO_PREFIX0_AP0_Msk               (0xffu << 0)
// TIMER
#define TIMER_MODE_MODE_Pos                 0
#define TIMER_MODE_MODE_Timer               0u
#define TIMER_BITMODE_BITMODE_Pos           0
#define TIMER_BITMODE_BITMODE_32Bit         3u
#define TIMER_INTENSET_COMPARE0_Pos         16
#define TIMER_INTENSET_COMPARE0_Enabled     1u
#define TIMER_INTENSET_COMPARE1_Pos         17
#define TIMER_SHORTS_COMPARE1_STOP_Pos      9
#define TIMER_SHORTS_COMPARE1_STOP_Enabled  1u
// RTC
#define RTC_EVTEN_OVRFLW_Pos                1
#define RTC_EVTEN_OVRFLW_Enabled            1u
#define RTC_EVTEN_COMPARE0_Pos              16
#define RTC_EVTEN_COMPARE0_Enabled          1u
#define RTC_EVTEN_COMPARE1_Pos              17
#define RTC_EVTEN_COMPARE1_Enabled          1u
#define RTC_EVTEN_COMPARE2_Pos              18
#define RTC_EVTEN_COMPARE2_Enabled          1u
// CLOCK
#define CLOCK_INTENSET_HFCLKSTARTED_Msk     (1u << 0)
#define CLOCK_INTENSET_LFCLKSTARTED_Msk     (1u << 1)
#define CLOCK_INTENSET_DONE_Msk             (1u << 3)
#define CLOCK_INTENSET_CTTO_Msk             (1u << 4)
#define CLOCK_HFCLKSTAT_SRC_Msk             (1u << 0)
#define CLOCK_HFCLKSTAT_STATE_Msk           (1u << 16)
#define CLOCK_LFCLKSTAT_SRC_Pos             0
#define CLOCK_LFCLKSTAT_SRC_Xtal            1u
#define CLOCK_LFCLKSTAT_STATE_Pos           16
#define CLOCK_LFCLKSTAT_STATE_Running       1u
#define CLOCK_LFCLKSRCCOPY_SRC_Pos          0
#define CLOCK_LFCLKSRCCOPY_SRC_RC           0u
#define CLOCK_LFCLKSRCCOPY_SRC_Xtal         1u
#define CLOCK_LFCLKSRCCOPY_SRC_Synth        2u
#define CLOCK_LFCLKSRC_SRC_Pos              0
#define CLOCK_LFCLKSRC_SRC_RC               0u
#define CLOCK_LFCLKSRC_SRC_Xtal             1u
#define CLOCK_LFCLKSRC_SRC_Synth            2u
// CCM
#define CCM_ENABLE_ENABLE_Msk               (3u << 0)
#define CCM_ENABLE_ENABLE_Disabled          0u
#define CCM_ENABLE_ENABLE_Enabled           2u
#define CCM_MICSTATUS_MICSTATUS_Msk         (1u << 0)
#define CCM_MICSTATUS_MICSTATUS_CheckFailed 0u
#define CCM_MICSTATUS_MICSTATUS_CheckPassed 1u
#define CCM_MODE_MODE_Pos                   0
#define CCM_MODE_MODE_Encryption            0u
#define CCM_MODE_MODE_Decryption            1u
#define CCM_MODE_DATARATE_Pos               16
#define CCM_MODE_DATARATE_1Mbit             0u
#define CCM_MODE_DATARATE_2Mbit             1u
#define CCM_MODE_LENGTH_Pos                 24
#define CCM_MODE_LENGTH_Default             0u
#define CCM_MODE_LENGTH_Extended            1u
#define CCM_SHORTS_ENDKSGEN_CRYPT_Msk       (1u << 0)
// AAR
#define AAR_ENABLE_ENABLE_Msk               (3u << 0)
#define AAR_ENABLE_ENABLE_Enabled           3u
#define AAR_ENABLE_ENABLE_Disabled          0u
// GPIOTE / GPIO
#define GPIOTE_CONFIG_MODE_Pos              0
#define GPIOTE_CONFIG_MODE_Task             3u
#define GPIOTE_CONFIG_PSEL_Pos              8
#define GPIOTE_CONFIG_POLARITY_Pos          16
#define GPIOTE_CONFIG_POLARITY_Toggle       3u
#define GPIOTE_CONFIG_OUTINIT_Pos           20
#define GPIOTE_CONFIG_OUTINIT_Low           0u
#define GPIO_PIN_CNF_DIR_Pos                0
#define GPIO_PIN_CNF_DIR_Output             1u
#define GPIO_PIN_CNF_DRIVE_Pos              8
#define GPIO_PIN_CNF_DRIVE_S0H1             2u

#endif
