#!/usr/bin/env python3
"""Runs the reverse patches of the fix commits (selftest/family_a_reverts.txt) as mutants: each must be reported."""
import os, subprocess, sys
HERE = os.path.dirname(os.path.abspath(__file__))
rows = [l.split() for l in open(os.path.join(HERE, "family_a_reverts.txt")) if l.strip() and not l.startswith("#")]
only = sys.argv[1:] 
res = []
for commit, props, declsel in rows:
    if only and commit not in only:
        continue
    env = dict(os.environ, VERIF_ATT_DECLS=declsel)
    r = subprocess.run([sys.executable, os.path.join(HERE, "..", "tools", "try_patch.py"), os.path.join(HERE, "reverts", commit + ".diff"), "--reverse"] + props.split(","),
                       env=env, capture_output=True, text=True)
    caught = {}
    cur = None
    for l in r.stdout.splitlines():
        if l.startswith("== "):
            cur = l.split()[1]; caught[cur] = []
        elif l.startswith("VIOLATION") and cur:
            caught[cur].append(l.split("key=")[1].split()[0] if "key=" in l else "?")
        elif "PATCH FAILED" in l:
            caught["patch"] = ["FAILED"]
    print(commit, {k: sorted(set(v))[:6] for k, v in caught.items()}, flush=True)
